#!/usr/bin/env python3
"""Runner for the solver-based checks of ebml-iterable (see DESIGN.md §9).

usage: check.py <PROPERTY> [--tier quick|thorough] [--only H1,H2] [--no-cache]
       check.py --replay <path>
       check.py --list

Exit 0: every obligation of the property held within the stated bounds (known findings
listed in known_findings.json are printed as KNOWN-FINDING lines).
Exit 1: `VIOLATION property=<id> replay=<path>` — a counterexample that reproduces
natively against the real crate.
Exit 2: inconclusive (timeout, out of memory, tool error, unsatisfied cover witness,
stub not applied, counterexample that does not reproduce). Never a pass.
"""
import argparse
import concurrent.futures as cf
import hashlib
import json
import os
import re
import resource
import shutil
import subprocess
import sys
import threading
import time

VERIF = os.path.dirname(os.path.abspath(__file__))
REPO = os.environ.get("VERIF_REPO", "/repo")
HARNESS_SRC = os.path.join(VERIF, "harness")
WORK = os.path.join(VERIF, ".work")
ALT = "" if REPO == "/repo" else "-" + hashlib.sha256(REPO.encode()).hexdigest()[:8]
# VERIF_REPO=<worktree> (used to evaluate seeded changes without touching /repo): a copy of the
# harness crate whose path dependency points at that tree, with its own build slots
HARNESS = HARNESS_SRC if not ALT else os.path.join(WORK, "harness" + ALT)
CACHE = os.path.join(WORK, "cache")
LOGS = os.path.join(WORK, "logs" + ALT)  # per tree under test: concurrent evaluations of seeded trees must not share log files
REPLAYS = os.path.join(VERIF, "replays")
EVID = os.path.join(VERIF, "evidence") if os.environ.get("VERIF_REPO", "/repo") == "/repo" else os.path.join(VERIF, ".work", "evidence-alt")
GUARD = "ebml_iterable_verif"

sys.path.insert(0, VERIF)
import harnesses as H  # noqa: E402

MEM_BUDGET_GB = int(os.environ.get("VERIF_MEM_GB", "52"))
MAX_PAR = int(os.environ.get("VERIF_JOBS", "14"))

STUB_LINES = {
    "io": "core::io::CustomOwner",
    "hash": "RandomState::new",
    "fmt": "fmt::format",
    "toolerr": "ToolError",
}


def sh(cmd, **kw):
    return subprocess.run(cmd, shell=isinstance(cmd, str), text=True, capture_output=True, **kw)


def sha_files(paths):
    h = hashlib.sha256()
    for p in sorted(paths):
        h.update(p.encode())
        with open(p, "rb") as f:
            h.update(f.read())
    return h.hexdigest()


def tree_files(root, subdirs, exts=(".rs", ".toml", ".lock")):
    out = []
    for sd in subdirs:
        base = os.path.join(root, sd)
        if os.path.isfile(base):
            out.append(base)
            continue
        for d, dn, fn in os.walk(base):
            dn[:] = [x for x in dn if x not in ("target", ".git", ".work")]
            for f in fn:
                if f.endswith(exts):
                    out.append(os.path.join(d, f))
    return out


def repo_hash():
    return sha_files(tree_files(REPO, ["src", "specification", "specification-derive", "Cargo.toml", "Cargo.lock"]))


def harness_hash():
    return sha_files(tree_files(HARNESS_SRC, ["src", "Cargo.toml", "Cargo.lock"]) + [os.path.join(VERIF, "known_findings.json")])


_HH = {}


def harness_hash_for(h):
    """Source hash a cached verdict of harness h depends on: the shared modules of the harness crate
    (lib.rs, oracle.rs, specs.rs, derived.rs, proofs/common.rs, proofs/stubs.rs, Cargo.*), known_findings.json
    and the ONE proofs file that defines h. Proof files do not import one another and proofs/mod.rs is only a
    list of `mod` lines, so adding or editing another proofs file cannot change h's verdict."""
    f = h.get("file", "")
    if f not in _HH:
        pdir = os.path.join(HARNESS_SRC, "src", "proofs")
        files = [p for p in tree_files(HARNESS_SRC, ["src", "Cargo.toml", "Cargo.lock"])
                 if os.path.dirname(p) != pdir or os.path.basename(p) in ("common.rs", "stubs.rs", f)]
        _HH[f] = sha_files(files + [os.path.join(VERIF, "known_findings.json")])
    return _HH[f]


def cache_key(h, ctx, playback, only_props, legacy=False):
    hh = ctx["harness_hash"] if legacy else harness_hash_for(h)
    return hashlib.sha256(json.dumps([h, ctx["repo_hash"], hh, ctx["cfgs"], playback, only_props], sort_keys=True).encode()).hexdigest()[:32]


def prepare_alt_harness():
    if not ALT:
        return
    shutil.rmtree(HARNESS, ignore_errors=True)
    shutil.copytree(HARNESS_SRC, HARNESS, ignore=shutil.ignore_patterns("target"))
    p = os.path.join(HARNESS, "Cargo.toml")
    t = open(p).read().replace('path = "/repo"', 'path = "%s"' % REPO)
    open(p, "w").write(t)


def load_findings():
    with open(os.path.join(VERIF, "known_findings.json")) as f:
        return json.load(f)


def open_finding_cfgs(findings):
    return sorted(k["cfg"] for k in findings["findings"] if k["status"] == "open" and k.get("cfg"))


class Slots:
    """A pool of persistent cargo target dirs so concurrent cargo-kani runs do not
    fight over one build directory. Slots are claimed with flock on a lock file so that
    several check.py processes can run at the same time."""

    def __init__(self, n):
        self.n = n
        self.held = {}
        self.lock = threading.Lock()

    def acquire(self):
        import fcntl
        os.makedirs(WORK, exist_ok=True)
        while True:
            for i in range(self.n):
                with self.lock:
                    if i in self.held:
                        continue
                    f = open(os.path.join(WORK, "slot%s-%d.lock" % (ALT, i)), "w")
                    try:
                        fcntl.flock(f, fcntl.LOCK_EX | fcntl.LOCK_NB)
                    except OSError:
                        f.close()
                        continue
                    self.held[i] = f
                    return i
            time.sleep(0.5)

    def release(self, i):
        import fcntl
        with self.lock:
            f = self.held.pop(i)
        fcntl.flock(f, fcntl.LOCK_UN)
        f.close()


class MemGate:
    """Memory budget shared by every check.py process on the machine (a flock'ed
    counter file), so that concurrent runs do not push CBMC into the OOM killer."""

    def __init__(self, total):
        self.total = total
        self.path = os.path.join(VERIF, ".work", "memgate")

    def _update(self, delta):
        import fcntl
        os.makedirs(os.path.dirname(self.path), exist_ok=True)
        with open(self.path, "a+") as f:
            fcntl.flock(f, fcntl.LOCK_EX)
            f.seek(0)
            txt = f.read().strip()
            try:
                entries = json.loads(txt) if txt else {}
            except ValueError:
                entries = {}
            # drop entries of dead processes
            entries = {p: v for p, v in entries.items() if os.path.exists("/proc/%s" % p)}
            me = str(os.getpid())
            used = sum(entries.values())
            if delta > 0 and used + delta > self.total and used > 0:
                ok = False
            else:
                entries[me] = entries.get(me, 0) + delta
                if entries[me] <= 0:
                    entries.pop(me)
                ok = True
            f.seek(0)
            f.truncate()
            f.write(json.dumps(entries))
            f.flush()
            fcntl.flock(f, fcntl.LOCK_UN)
        return ok

    def acquire(self, gb):
        gb = min(gb, self.total)
        while not self._update(gb):
            time.sleep(1.0)

    def release(self, gb):
        gb = min(gb, self.total)
        self._update(-gb)


CHECK_RE = re.compile(r"^Check (\d+): (.+)\n\t - Status: (\w+)\n\t - Description: \"(.*)\"\n\t - Location: (.*)$", re.M)


def parse_log(text):
    checks = []
    for m in CHECK_RE.finditer(text):
        checks.append({"n": int(m.group(1)), "name": m.group(2), "status": m.group(3), "desc": m.group(4).strip('"\\'), "loc": m.group(5)})
    verdict = None
    m = re.search(r"^VERIFICATION:- (\w+)", text, re.M)
    if m:
        verdict = m.group(1)
    vt = re.search(r"^Verification Time: ([\d.]+)s", text, re.M)
    solver = sum(float(x) for x in re.findall(r"^Runtime Solver: ([\d.e+-]+)s", text, re.M))
    symex = sum(float(x) for x in re.findall(r"^Runtime Symex: ([\d.e+-]+)s", text, re.M))
    vc = re.findall(r"^(\d+) variables, (\d+) clauses", text, re.M)
    steps = re.search(r"size of program expression: (\d+) steps", text)
    stubs = re.findall(r"^\s*- Stub: (.*)$", text, re.M)
    funcs = sorted({m.group(1).strip() for m in re.finditer(r" in function (ebml_iterable[^\n]*)", text)})
    return {
        "checks": checks,
        "raw_failures": len(re.findall(r"^\t - Status: FAILURE", text, re.M)),
        "verdict": verdict,
        "verification_time_s": float(vt.group(1)) if vt else None,
        "solver_s": round(solver, 3),
        "symex_s": round(symex, 3),
        "sat_queries": len(vc),
        "max_vars": max([int(a) for a, _ in vc], default=0),
        "max_clauses": max([int(b) for _, b in vc], default=0),
        "program_steps": int(steps.group(1)) if steps else None,
        "stubs_applied": stubs,
        "functions_with_checks": funcs,
        "cbmc_error": bool(re.search(r"CBMC failed|std::bad_alloc|Out of memory|SIGSEGV|SIGKILL|SIGABRT|terminated by signal|error: internal compiler error", text)),
    }


def kani_cmd(h, target_dir, playback=False, only_props=None):
    cmd = ["cargo", "kani", "--harness", "proofs::%s::%s" % (h["file"][:-3], h["name"]), "--exact", "--target-dir", target_dir]
    if os.environ.get("VERIF_VERBOSE"):
        cmd.append("--verbose")  # CBMC statistics (symex/solver split, variables/clauses); about 2x slower
    z = []
    if h.get("stubs"):
        z.append("stubbing")
    if playback:
        z.append("concrete-playback")
    for f in z:
        cmd += ["-Z", f]
    if playback:
        cmd += ["--concrete-playback=print"]
    if h.get("no_mem_checks"):
        cmd += ["--no-memory-safety-checks"]
    for a in h.get("kani_args", []):
        cmd.append(a)
    if only_props:
        # playback: ask CBMC for a trace of the failing checks only (one SAT query each instead of
        # the whole property set; the all-properties playback run can be orders of magnitude slower)
        cmd.append("--cbmc-args")
        for p in only_props:
            cmd += ["--property", p]
    return cmd


def run_env(findings):
    env = dict(os.environ)
    env["CARGO_NET_OFFLINE"] = "true"
    flags = ["--cfg", GUARD]
    for c in open_finding_cfgs(findings):
        flags += ["--cfg", c]
    env["RUSTFLAGS"] = " ".join(flags)
    env.pop("CARGO_TARGET_DIR", None)
    return env


def limits(mem_gb, big_stack):
    def f():
        if big_stack:
            resource.setrlimit(resource.RLIMIT_STACK, (resource.RLIM_INFINITY, resource.RLIM_INFINITY))
        lim = int(max(mem_gb * 2.5, 32) * (1 << 30))  # address-space cap (protective only; the gate budgets mem_gb)
        resource.setrlimit(resource.RLIMIT_AS, (lim, lim))
        os.setsid()
    return f


def run_harness(h, ctx, playback=False, only_props=None):
    """Run one Kani harness; returns a result dict (possibly from cache). The first run
    is without concrete playback (4x cheaper); a failing harness is re-run with it."""
    key = cache_key(h, ctx, playback, only_props)
    cpath = os.path.join(CACHE, key + ".json")
    if ctx["use_cache"] and os.path.exists(cpath):
        with open(cpath) as f:
            r = json.load(f)
        r["from_cache"] = True
        return r
    mem = h.get("mem_gb", 6)
    ctx["mem"].acquire(mem)
    slot = ctx["slots"].acquire()
    t0 = time.time()
    try:
        tdir = os.path.join(WORK, "slot%s-%d" % (ALT, slot))
        logp = os.path.join(LOGS, "%s%s.log" % (h["name"], ".playback" if playback else ""))
        cmd = kani_cmd(h, tdir, playback=playback, only_props=only_props)
        # witness extraction is capped: CBMC's trace mode is occasionally pathological (a 4 s proof
        # whose trace run does not finish in 30 min); then the outcome is inconclusive, never a VIOLATION
        timeout = min(h.get("timeout_s", 600) * 2, 1500) if playback else h.get("timeout_s", 600)
        if os.environ.get("VERIF_TIMEOUT_CAP"):
            timeout = min(timeout, int(os.environ["VERIF_TIMEOUT_CAP"]))
        status = "done"
        with open(logp, "w") as lf:
            p = subprocess.Popen(cmd, cwd=HARNESS, env=ctx["env"], stdout=lf, stderr=subprocess.STDOUT, preexec_fn=limits(mem * 3 if playback else mem, h.get("big_stack", False)))  # kani-driver needs room to parse the CBMC trace
            try:
                p.wait(timeout=timeout)
            except subprocess.TimeoutExpired:
                status = "timeout"
                try:
                    os.killpg(p.pid, 9)
                except ProcessLookupError:
                    pass
                p.wait()
        with open(logp, errors="replace") as lf:
            text = lf.read()
        r = parse_log(text)
        r.update({"harness": h["name"], "status": status, "rc": p.returncode, "wall_s": round(time.time() - t0, 1), "log": logp,
                  "cmd": " ".join(cmd), "from_cache": False})
        r["playback_tests"] = re.findall(r"```\n(.*?)```", text, re.S)
        solver_failed = any(c["status"] in ("ERROR", "UNDETERMINED") for c in r["checks"])
        if status == "done" and r["verdict"] in ("SUCCESSFUL", "FAILED") and not r["cbmc_error"] and not solver_failed:
            os.makedirs(CACHE, exist_ok=True)
            with open(cpath, "w") as f:
                json.dump(r, f)
        return r
    finally:
        ctx["slots"].release(slot)
        ctx["mem"].release(mem)


def props_of(desc):
    """Property tags of an assertion message: every Cxx in the prefix before the first colon
    ("C13/C17a: ..."). Empty = untagged (library panic, unwinding assertion...)."""
    return re.findall(r"C\d\d", desc.split(":")[0]) if re.match(r"C\d\d", desc) else []


def prop_of(desc):
    t = props_of(desc)
    return t[0] if t else None


def classify(h, r, prop):
    """-> (state, details). state in pass | fail | inconclusive."""
    if r["status"] == "timeout":
        return "inconclusive", ["timeout after %ss" % h.get("timeout_s", 600)]
    if r["verdict"] is None or r["cbmc_error"] and r["verdict"] != "SUCCESSFUL":
        return "inconclusive", ["tool error / out of memory (rc=%s), see %s" % (r["rc"], r["log"])]
    notes = []
    for s in h.get("stubs", []):
        if not any(STUB_LINES[s] in x.replace(" ", "") for x in r["stubs_applied"]):
            return "inconclusive", ["stub %s not applied" % s]
    fails = [c for c in r["checks"] if c["status"] == "FAILURE"]
    if len(fails) != r.get("raw_failures", len(fails)):
        return "inconclusive", ["log parser missed a failing check (%d parsed, %d in log)" % (len(fails), r.get("raw_failures"))]
    undet = [c for c in r["checks"] if c["status"] in ("UNDETERMINED", "ERROR")]
    covers = [c for c in r["checks"] if ".cover." in c["name"] or c["name"].endswith(".cover")]
    mine = []
    for c in fails:
        t = props_of(c["desc"])
        if not t or prop in t:
            mine.append(c)
    if mine:
        return "fail", mine
    if fails:
        # failures tagged for other properties make everything after them unreliable
        # (Kani assumes a failed assertion) -> this property is not decided by this run
        notes.append("failing obligations of other properties present: %s" % sorted({prop_of(c['desc']) for c in fails}))
        return "inconclusive", notes
    if undet:
        return "inconclusive", ["undetermined checks: %d" % len(undet)]
    unsat = [c for c in covers if c["status"] not in ("SATISFIED",)]
    if unsat:
        return "inconclusive", ["cover witness not satisfied: %s" % [c["desc"] for c in unsat]]
    if r["verdict"] != "SUCCESSFUL":
        return "inconclusive", ["kani verdict %s without failing check" % r["verdict"]]
    return "pass", notes


def extract_playback(r, failing_descs):
    """Pick generated playback tests whose header names one of the failing checks."""
    out = []
    for t in r.get("playback_tests", []):
        if "kani::concrete_playback_run" not in t:
            continue
        # tests are named after a hash of their concrete values: a failing assertion whose
        # witness equals a cover's witness is printed once, under the cover's header - keep all
        out.append(t)
    return out


def native_replay(h, tests, ctx, tag):
    """Replay generated tests natively (cargo kani playback) in dev and release.
    Returns (reproduced: bool, replay_path, detail)."""
    os.makedirs(REPLAYS, exist_ok=True)
    rid = hashlib.sha256(("".join(tests) + h["name"]).encode()).hexdigest()[:12]
    rpath = os.path.join(REPLAYS, "%s_%s.rs" % (h["name"], rid))
    with open(rpath, "w") as f:
        f.write("// harness: %s\n// property: %s\n// source file: %s\n" % (h["name"], tag, h.get("file", "")))
        f.write("\n".join(tests))
    ok, detail = run_replay_file(rpath, ctx)
    return ok, rpath, detail


def run_replay_file(rpath, ctx):
    with open(rpath) as f:
        text = f.read()
    m = re.search(r"^// harness: (\S+)", text, re.M)
    hname = m.group(1)
    h = H.BY_NAME[hname]
    scratch = os.path.join(WORK, "replay-%s-%d" % (hname, os.getpid()))
    shutil.rmtree(scratch, ignore_errors=True)
    shutil.copytree(HARNESS, scratch, ignore=shutil.ignore_patterns("target"))  # (already points at VERIF_REPO if set)
    try:
        src = os.path.join(scratch, "src", "proofs", h["file"])
        body = "\n".join(l for l in text.splitlines() if not l.startswith("// "))
        tests_all = re.findall(r"(#\[test\]\nfn (\w+)\(\).*?\n\})", body, re.S)
        seen, tests = set(), []
        for t, name in tests_all:  # the same witness may be printed for several checks
            if name not in seen:
                seen.add(name)
                tests.append((t, name))
        with open(src, "a") as f:
            f.write("\n#[cfg(test)]\nmod verif_playback {\n    use super::*;\n")
            for t, _ in tests:
                f.write(t + "\n")
            f.write("}\n")
        results = {}
        for prof in ("dev",):  # cargo kani playback (0.68) has no --release
            cmd = ["cargo", "kani", "playback", "-Z", "concrete-playback"]
            if h.get("stubs"):
                cmd += ["-Z", "stubbing"]
            if prof == "release":
                cmd += ["--release"]
            cmd += ["--", "verif_playback"]
            env = dict(ctx["env"])
            env["CARGO_TARGET_DIR"] = os.path.join(WORK, "replay-target" + ALT)
            p = sh(cmd, cwd=scratch, env=env, timeout=900)
            out = p.stdout + p.stderr
            failed = re.findall(r"^test (\S+) \.\.\. FAILED", out, re.M)
            passed = re.findall(r"^test (\S+) \.\.\. ok", out, re.M)
            results[prof] = {"failed": failed, "passed": passed, "rc": p.returncode}
            with open(os.path.join(LOGS, "replay-%s-%s.log" % (hname, prof)), "w") as lf:
                lf.write(out)
        repro = bool(results["dev"]["failed"])
        return repro, results
    finally:
        shutil.rmtree(scratch, ignore_errors=True)


def main():
    ap = argparse.ArgumentParser()
    ap.add_argument("prop", nargs="?")
    ap.add_argument("--tier", default=os.environ.get("VERIF_TIER", "quick"))
    ap.add_argument("--only")
    ap.add_argument("--no-cache", action="store_true")
    ap.add_argument("--replay")
    ap.add_argument("--list", action="store_true")
    a = ap.parse_args()
    seed = int(os.environ.get("VERIF_SEED", "0") or 0)
    os.makedirs(LOGS, exist_ok=True)
    prepare_alt_harness()
    findings = load_findings()
    ctx = {
        "env": run_env(findings),
        "cfgs": open_finding_cfgs(findings),
        "repo_hash": repo_hash(),
        "harness_hash": harness_hash(),
        "use_cache": not (a.no_cache or os.environ.get("VERIF_NO_CACHE")),
        "slots": Slots(MAX_PAR),
        "mem": MemGate(MEM_BUDGET_GB),
    }
    if a.list:
        for h in H.HARNESSES:
            print(h["name"], h["props"], h["tier"])
        return 0
    if a.replay:
        ok, detail = run_replay_file(a.replay, ctx)
        print(json.dumps(detail, indent=1))
        if ok:
            m = re.search(r"^// property: (\S+)", open(a.replay).read(), re.M)
            print("VIOLATION property=%s replay=%s" % (m.group(1) if m else "?", a.replay))
            return 1
        print("replay did not reproduce")
        return 0
    prop = a.prop
    t0 = time.time()
    hs = [h for h in H.HARNESSES if prop in h["props"] and (a.tier == "thorough" or (h["tier"] == "quick" and prop not in h.get("thorough_for", [])))]
    if a.only:
        hs = [h for h in hs if h["name"] in a.only.split(",")]
    wit = [h for h in H.HARNESSES if prop in h.get("witness_for", [])]
    if not hs:
        print("no harness for", prop)
        return 2
    import random
    rnd = random.Random(seed)
    rnd.shuffle(hs)
    # longest first for better packing
    hs.sort(key=lambda h: -h.get("timeout_s", 600))
    results = {}
    with cf.ThreadPoolExecutor(max_workers=MAX_PAR) as ex:
        futs = {ex.submit(run_harness, h, ctx): h for h in hs + wit}
        for fu in cf.as_completed(futs):
            h = futs[fu]
            try:
                results[h["name"]] = fu.result()
            except Exception as e:  # noqa
                results[h["name"]] = {"harness": h["name"], "status": "error", "verdict": None, "checks": [], "cbmc_error": True, "rc": -1,
                                      "log": str(e), "stubs_applied": [], "wall_s": 0, "from_cache": False}
    violations, inconcl, known = [], [], []
    per = []
    for h in hs:
        r = results[h["name"]]
        state, det = classify(h, r, prop)
        entry = {"harness": h["name"], "state": state}
        if state == "fail":
            rp = run_harness(h, ctx, playback=True, only_props=sorted({c["name"] for c in det})[:4])
            tests = extract_playback(rp, det)
            if not tests:
                rp = run_harness(h, ctx, playback=True)  # fall back to the all-properties playback run
                tests = extract_playback(rp, det)
            descs = sorted({c["desc"] for c in det})
            if not tests:
                state = "inconclusive"
                inconcl.append((h["name"], ["failing checks %s but no playback test generated" % descs]))
            else:
                ok, rpath, detail = native_replay(h, tests, ctx, prop)
                if ok:
                    violations.append((h["name"], descs, rpath))
                    entry["replay"] = rpath
                else:
                    state = "inconclusive"
                    inconcl.append((h["name"], ["counterexample for %s did not reproduce natively: %s" % (descs, detail)]))
            entry["state"] = state
            entry["failed"] = descs
        elif state == "inconclusive":
            inconcl.append((h["name"], det))
            entry["why"] = det
        per.append(entry)
    # witnesses of open known findings
    for h in wit:
        r = results[h["name"]]
        kf = [k for k in findings["findings"] if k.get("witness") == h["name"] and k["status"] == "open"]
        if not kf:
            continue
        fails = [c for c in r.get("checks", []) if c["status"] == "FAILURE"]
        if fails:
            for k in kf:
                known.append(k)
                print("KNOWN-FINDING: property=%s %s" % (prop, k["what"]))
    ev = build_evidence(prop, a.tier, seed, hs, wit, results, per, violations, inconcl, known, time.time() - t0, ctx)
    os.makedirs(EVID, exist_ok=True)
    with open(os.path.join(EVID, prop + ".json"), "w") as f:
        json.dump(ev, f, indent=1)
    for name, descs, rpath in violations:
        print("harness %s: %s" % (name, "; ".join(descs)))
        print("VIOLATION property=%s replay=%s" % (prop, rpath))
    for name, det in inconcl:
        print("INCONCLUSIVE harness %s: %s" % (name, det))
    if violations:
        return 1
    if inconcl:
        return 2
    print("OK property=%s tier=%s harnesses=%d obligations=%d wall=%.0fs" % (prop, a.tier, len(hs), ev["coverage"]["obligations"], time.time() - t0))
    return 0


def build_evidence(prop, tier, seed, hs, wit, results, per, violations, inconcl, known, wall, ctx):
    samples = []
    obligations = discharged = 0
    solver = symex = vt = 0.0
    funcs = set()
    stubs = set()
    covers_sat = covers_total = 0
    for h in hs:
        r = results[h["name"]]
        chk = r.get("checks", [])
        asserts = [c for c in chk if ".cover" not in c["name"]]
        cov = [c for c in chk if ".cover" in c["name"]]
        mine = [c for c in asserts if not props_of(c["desc"]) or prop in props_of(c["desc"])]
        obligations += len(mine)
        discharged += len([c for c in mine if c["status"] in ("SUCCESS", "UNREACHABLE")])
        covers_total += len(cov)
        covers_sat += len([c for c in cov if c["status"] == "SATISFIED"])
        solver += r.get("solver_s") or 0
        symex += r.get("symex_s") or 0
        vt += r.get("verification_time_s") or 0
        fl = r.get("functions_with_checks", [])
        if r.get("from_cache") and r.get("log") and os.path.exists(r["log"]):
            try:  # cached entries written by an older parser: take the full names from the log
                with open(r["log"], errors="replace") as lf:
                    fl = sorted({m.group(1).strip() for m in re.finditer(r" in function (ebml_iterable[^\n]*)", lf.read())})
            except OSError:
                pass
        funcs.update(fl)
        stubs.update(r.get("stubs_applied", []))
        samples.append({
            "harness": h["name"], "shape": h.get("shape"), "decides": h.get("decides"), "bounds": h.get("bounds"),
            "assumptions": h.get("assumes", []),
            "tagged_obligations": sorted({c["desc"] for c in mine if prop in props_of(c["desc"])}),
            "covers": [{"desc": c["desc"], "status": c["status"]} for c in cov],
            "cbmc_checks": len(asserts), "verdict": r.get("verdict"), "verification_time_s": r.get("verification_time_s"),
            "solver_s": r.get("solver_s"), "symex_s": r.get("symex_s"), "sat_queries": r.get("sat_queries"),
            "max_vars": r.get("max_vars"), "max_clauses": r.get("max_clauses"), "program_steps": r.get("program_steps"),
            "wall_s": r.get("wall_s"), "from_cache": r.get("from_cache"), "cmd": r.get("cmd"),
        })
    n_nontrivial = len([s for s in samples if s["verdict"] == "SUCCESSFUL" and s["covers"] and all(c["status"] == "SATISFIED" for c in s["covers"])])
    return {
        "property_id": prop,
        "tier": tier,
        "seed": seed,
        "level": "other",
        "coverage": {
            "explanation": "bounded symbolic verification with Kani/CBMC over the real crate compiled from /repo's working tree: "
                           "each harness's assertions hold for EVERY value of its symbolic inputs within the stated bounds "
                           "(unwinding assertions on); structural families are enumerated; nothing is claimed outside the bounds. "
                           + H.PROP_NOTES.get(prop, ""),
            "obligations": obligations,
            "discharged": discharged,
            "evaluations": len(hs),
            "distinct_nontrivial": n_nontrivial,
            "rule": "one evaluation = one Kani harness (one CBMC run deciding all its assertions for all symbolic inputs); "
                    "non-trivial = verified AND every kani::cover! reachability witness in it SATISFIED",
            "samples": samples,
            "checker_cmd": "cargo kani --harness proofs::<file>::<H> --exact -Z stubbing --target-dir .work/slot-k (RUSTFLAGS=--cfg %s); a failing harness is re-run with -Z concrete-playback --concrete-playback=print and replayed with cargo kani playback" % GUARD,
            "trusted_base": ["Kani 0.68.0 / CBMC 6.11.0 / CaDiCaL", "harness oracles in /verif/harness/src/oracle.rs (natively self-tested)",
                             "stubs applied: %s" % sorted(stubs), "drop-free Copy TSpec instantiations (DESIGN T1)",
                             "written composition arguments (DESIGN T5)"],
            "functions_encoded_with_checks": sorted(funcs),
            "covers_satisfied": covers_sat, "covers_total": covers_total,
            "solver_seconds": round(solver, 2), "symex_seconds": round(symex, 2), "cbmc_seconds": round(vt, 2),
            "inconclusive": [{"harness": n, "why": d} for n, d in inconcl],
            "known_findings_reported": [k["key"] for k in known],
            "repo_tree_sha256": ctx["repo_hash"],
            "exhaustive": False,
        },
        "assumptions": sorted({x for h in hs for x in h.get("assumes", [])}) + H.GLOBAL_ASSUMPTIONS,
        "wall_s": round(wall, 1),
        "violations": len(violations),
    }


if __name__ == "__main__":
    sys.exit(main())
