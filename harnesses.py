"""Harness registry: which Kani harness serves which property, at which tier, with
which resources. Shapes: L = leaf (public pure function, fully symbolic arguments),
U = unit via cfg-guarded hook (private function, symbolic window + seeded pre-state),
S = skeleton + symbolic slots via the public API (structure enumerated)."""

HARNESSES = []
BY_NAME = {}


def add(name, props, file, shape, decides, bounds, tier="quick", timeout_s=600, mem_gb=6, stubs=(), assumes=(), **kw):
    h = dict(name=name, props=list(props), file=file, shape=shape, decides=decides, bounds=bounds, tier=tier,
             timeout_s=timeout_s, mem_gb=mem_gb, stubs=list(stubs), assumes=list(assumes))
    h.update(kw)
    HARNESSES.append(h)
    BY_NAME[name] = h


GLOBAL_ASSUMPTIONS = [
    "Kani/CBMC model of Rust semantics, alloc and memcpy (dev profile: overflow checks and debug assertions on)",
    "results are bounded: they say nothing outside each harness's stated bounds",
]

PROP_NOTES = {}

# ---------------------------------------------------------------- C15
V64 = "all 2^64 values"
add("c15_as_vint_shortest", ["C15"], "c15.rs", "L", "as_vint: Err iff v>=2^56 else shortest reference encoding", V64)
for L in range(1, 9):
    add("c15_as_vint_len_%d" % L, ["C15"], "c15.rs", "L",
        "as_vint_with_length::<%d>: overflow iff v>=2^%d, else exactly %d reference bytes, read_vint inverts" % (L, 7 * L, L), V64)
add("c15_read_vint_total", ["C15"], "c15.rs", "L", "read_vint total; need-more iff proper prefix; length within slice; value == reference",
    "all 2^72 contents of a 9-byte array x every slice length 0..=9")
add("c15_roundtrip_default", ["C15", "C01"], "c15.rs", "L", "read_vint(as_vint(v)) == (v, len)", "all v < 2^56", assumes=["v < 2^56"])
add("c15_signed_default", ["C15"], "c15.rs", "L", "as_signed_vint: accepts exactly -2^55<v<2^55, shortest width, read_signed_vint inverts", "all 2^64 i64 values")
add("c15_signed_with_length", ["C15"], "c15.rs", "L", "as_signed_vint_with_length(l): accepts exactly -2^(7l-1)<v<2^(7l-1), width l, decoders invert/agree",
    "all i64 x widths 1..=8", assumes=["1 <= l <= 8 (other widths are documented misuse)"])
add("c15_read_signed_total", ["C15"], "c15.rs", "L", "read_signed_vint total, agrees with read_vint on need-more/error/length, value == two's complement of the 7l-bit field",
    "all 2^72 contents of a 9-byte array x every slice length 0..=9")
add("c15_is_vint", ["C15"], "c15.rs", "L", "is_vint(v) == (byte length of v == length announced by its marker)", V64)
