"""Harness registry: which Kani harness serves which property, at which tier, with
which resources. Shapes: L = leaf (public pure function, fully symbolic arguments),
U = unit via cfg-guarded hook (private function, symbolic window + seeded pre-state),
S = skeleton + symbolic slots via the public API (structure enumerated)."""

HARNESSES = []
BY_NAME = {}


def add(name, props, file, shape, decides, bounds, tier="quick", timeout_s=600, mem_gb=6, stubs=(), assumes=(), **kw):
    h = dict(name=name, props=list(props), file=file, shape=shape, decides=decides, bounds=bounds, tier=tier,
             timeout_s=timeout_s, mem_gb=mem_gb, stubs=list(stubs), assumes=list(assumes))
    h.update(kw)
    HARNESSES.append(h)
    BY_NAME[name] = h


GLOBAL_ASSUMPTIONS = [
    "Kani/CBMC model of Rust semantics, alloc and memcpy (dev profile: overflow checks and debug assertions on)",
    "results are bounded: they say nothing outside each harness's stated bounds",
]

PROP_NOTES = {}

# ---------------------------------------------------------------- C15
V64 = "all 2^64 values"
add("c15_as_vint_shortest", ["C15"], "c15.rs", "L", "as_vint: Err iff v>=2^56 else shortest reference encoding", V64)
for L in range(1, 9):
    add("c15_as_vint_len_%d" % L, ["C15"], "c15.rs", "L",
        "as_vint_with_length::<%d>: overflow iff v>=2^%d, else exactly %d reference bytes, read_vint inverts" % (L, 7 * L, L), V64)
add("c15_read_vint_total", ["C15"], "c15.rs", "L", "read_vint total; need-more iff proper prefix; length within slice; value == reference",
    "all 2^72 contents of a 9-byte array x every slice length 0..=9")
add("c15_roundtrip_default", ["C15", "C01"], "c15.rs", "L", "read_vint(as_vint(v)) == (v, len)", "all v < 2^56", assumes=["v < 2^56"])
add("c15_signed_default", ["C15"], "c15.rs", "L", "as_signed_vint: accepts exactly -2^55<v<2^55, shortest width, read_signed_vint inverts", "all 2^64 i64 values")
add("c15_signed_with_length", ["C15"], "c15.rs", "L", "as_signed_vint_with_length(l): accepts exactly -2^(7l-1)<v<2^(7l-1), width l, decoders invert/agree",
    "all i64 x widths 1..=8", assumes=["1 <= l <= 8 (other widths are documented misuse)"])
add("c15_read_signed_total", ["C15"], "c15.rs", "L", "read_signed_vint total, agrees with read_vint on need-more/error/length, value == two's complement of the 7l-bit field",
    "all 2^72 contents of a 9-byte array x every slice length 0..=9")
add("c15_is_vint", ["C15"], "c15.rs", "L", "is_vint(v) == (byte length of v == length announced by its marker)", V64)

# ---------------------------------------------------------------- C16 (leaf part)
SL9 = "all 2^72 contents of a 9-byte array x every slice length 0..=9"
add("c16_arr_to_u64", ["C16", "C02"], "c16.rs", "L", "arr_to_u64: big-endian value for len<=8 (empty=0), Err for 9; total", SL9)
add("c16_arr_to_i64", ["C16", "C02", "C05"], "c16.rs", "L", "arr_to_i64: sign-extended two's complement for len<=8 (empty=0), Err for 9; total", SL9)
add("c16_arr_to_f64", ["C16", "C02"], "c16.rs", "L", "arr_to_f64: bit-exact for len 8, exact IEEE widening for len 4, Err otherwise; total", SL9)

# ---------------------------------------------------------------- C01 (S) size-field composition
for L in range(1, 9):
    add("c01_size_width_%d" % L, ["C01"], "c01.rs", "L",
        "as_vint_with_length::<%d>(s) is rejected or is read back (read_vint + RFC 8794 unknown-size rule) as Known(s); only s=2^%d-1 reads as unknown" % (L, 7 * L), V64)

# ---------------------------------------------------------------- header unit (shared)
IO_HASH = ["io", "hash"]
HDR_DEC = ("peek_valid_tag_header == ref_header(window[cursor..fill]) + fault set: accepted header mirrors the bytes (C03a), result independent of stale bytes "
           "beyond the fill level (C04a), no panic and 2<=header_len<=available (C05a), truncated header -> accurate EOF error never corruption (C12a), "
           "rejections carry their own kind/id/offset under every tolerance mask (C13), size above limit never accepted, no overflow (C17a)")
add("hdr_flat_full", ["C03", "C04", "C05", "C13", "C17"], "hdr.rs", "U", HDR_DEC,
    "24-byte buffer fully symbolic, cursor 0..=3, fill >= cursor+16 (every header fits), base offset < 2^40, all 8 masks, limit any Option<usize>; spec Flat",
    timeout_s=1800, mem_gb=16, stubs=IO_HASH, big_stack=True,
    assumes=["Inv_buf: cursor <= fill <= allocation = 24, buffer_offset = Some(base)", "empty tag stack, document path not yet determined"])
add("hdr_flat_trunc", ["C03", "C04", "C05", "C12", "C13", "C17"], "hdr.rs", "U", HDR_DEC,
    "24-byte buffer fully symbolic incl. the stale bytes behind the fill level, fill 0..=15, cursor 0, source at EOF, base offset < 2^40, all 8 masks, limit any; spec Flat",
    timeout_s=1800, mem_gb=16, stubs=IO_HASH, big_stack=True,
    assumes=["cursor == 0: the state ensure_data_read leaves at EOF (its view-preservation contract is decided by the edr_* harnesses)", "source returns Ok(0)",
             "empty tag stack, document path not yet determined"])

# ---------------------------------------------------------------- ensure_data_read unit
EDR_B = "24-byte symbolic stream, 3 scripted reads of 0..=8 bytes each (0 = temporary EOF) then EOF, request length as in the name (the call sites use 1, 8, 16 and payload sizes), 16 symbolic stale bytes, fill<=8, cursor<=fill, base<2^40"
for n, cap, ff in (("edr_refill_cap16_len16", 16, False), ("edr_first_fill_cap16_len8", 16, True), ("edr_refill_cap8_len16", 8, False),
                   ("edr_first_fill_cap0_len1", 0, True), ("edr_refill_cap16_len5", 16, False)):
    add(n, ["C04", "C05"], "edr.rs", "U",
        "ensure_data_read: position fixed, buffered window == stream at every absolute position, only extended, no byte lost/duplicated, "
        "Ok(true) => bytes present, Ok(false) only after the source returned 0" + (" (first fill)" if ff else ""),
        EDR_B + ", allocation %d" % cap, timeout_s=600, mem_gb=6, stubs=IO_HASH,
        assumes=["Inv_buf on the seeded state", "source delivers the stream in order (Read contract)"])
add("edr_source_error", ["C05"], "edr.rs", "U", "a failing source.read surfaces as ReadError carrying the same OS error; never swallowed",
    "failing call index 0..=2, 3 scripted reads of 0..=3 bytes, request 8 bytes, allocation 16", timeout_s=900, mem_gb=8, stubs=IO_HASH,
    assumes=["source fails with from_raw_os_error(5)"])

# ---------------------------------------------------------------- writer units
WST = ["io", "fmt", "toolerr"]
add("c16w_uint", ["C16", "C01", "C02"], "wr.rs", "U", "write_unsigned_int_tag::<0>: id | 0x80+w | big-endian, w minimal in {1,2,4,8}; arr_to_u64 inverts", V64, timeout_s=1200, mem_gb=8, stubs=WST)
add("c16w_int", ["C16", "C01", "C02"], "wr.rs", "U", "write_signed_int_tag::<0>: minimal two's-complement width; arr_to_i64 inverts", "all 2^64 i64 values", timeout_s=1200, mem_gb=8, stubs=WST)
add("c16w_float", ["C16", "C01", "C02"], "wr.rs", "U", "write_float_tag::<0>: 8 bytes, bit pattern preserved; arr_to_f64 inverts bit for bit", "all 2^64 bit patterns incl. NaNs", timeout_s=1200, mem_gb=8, stubs=WST)
add("c09_id_bytes", ["C09", "C01"], "wr.rs", "U", "element id emitted unchanged in exactly its byte length", "all well-formed ids (1..=8 bytes)", timeout_s=1200, mem_gb=8, stubs=WST,
    assumes=["id well-formed (the writer is only given spec ids or ids that passed is_vint)"])
for W, C, tier in ((0, 2, "quick"), (1, 2, "quick"), (8, 2, "quick"), (2, 2, "thorough"), (3, 2, "thorough"), (4, 2, "thorough"), (5, 2, "thorough"),
                   (6, 2, "thorough"), (7, 2, "thorough"), (0, 0, "thorough"), (8, 0, "thorough")):
    add("c09_end_tag_w%d_c%d" % (W, C), ["C09", "C01", "C10"], "wr.rs", "U",
        "end_tag: buffer == prefix | id | size field of width %s | content; master popped" % (W or "shortest"),
        "concrete shape: 2 prefix bytes, %d content bytes, 1-byte id; all byte values symbolic" % C, tier=tier, timeout_s=1800, mem_gb=16, stubs=WST, big_stack=True,
        assumes=["Inv_w: open master's start <= buffer length"])
add("c01w_binary_len_126_128", ["C01", "C09"], "wr.rs", "U", "write_binary_tag::<0> with a 126/127/128-byte payload: size field reads back as Known(len), not as the reserved unknown-size pattern",
    "payload length 126..=128 symbolic, payload bytes concrete zeros (only the length matters)", timeout_s=1200, mem_gb=8, stubs=WST)
add("c01w_end_tag_content_127", ["C01", "C09"], "wr.rs", "U", "end_tag of a master with 127 content bytes writes Known(127)", "content concrete zeros, default width", timeout_s=1200, mem_gb=8, stubs=WST)
C19A = ["Inv_w on the seeded state; state compared = working buffer (first 8 bytes + length), open-master stack (depth <= 2), bytes handed to the destination"]
add("c19_binary_width1_overflow", ["C19", "C09"], "wr.rs", "U", "write_binary_tag::<1> with 126..129-byte payload: Err iff len >= 127; on Err state == snapshot",
    "payload length 126..=129 (bytes concrete), 2 symbolic buffered bytes, one known-size master open", timeout_s=900, mem_gb=8, stubs=WST, assumes=C19A)
add("c19_end_tag_outer_id_inner_known", ["C19"], "wr.rs", "U", "end_tag(outer master's id) while a known-size inner master is open: Err and state == snapshot", "3 symbolic buffered bytes", timeout_s=900, mem_gb=8, stubs=WST, assumes=C19A)
add("c19_end_tag_outer_id_inner_unknown", ["C19"], "wr.rs", "U", "end_tag(outer master's id) while an unknown-size inner master is open: Err and state == snapshot", "3 symbolic buffered bytes", timeout_s=900, mem_gb=8, stubs=WST, assumes=C19A)
add("c19_end_tag_any_id_inner_unknown", ["C19"], "wr.rs", "U", "end_tag(any other id), inner unknown-size: Err and state == snapshot", "all 2^64-1 other ids", timeout_s=900, mem_gb=8, stubs=WST, assumes=C19A)
add("c19_end_tag_any_id_inner_known", ["C19"], "wr.rs", "U", "end_tag(any other id), inner known-size: Err and state == snapshot", "all 2^64-1 other ids", tier="thorough", timeout_s=2400, mem_gb=12, stubs=WST, assumes=C19A)
add("c19_end_tag_no_open", ["C19"], "wr.rs", "U", "end_tag with nothing open: Err and state unchanged", "all ids", timeout_s=600, mem_gb=6, stubs=WST, assumes=C19A)
for n in (127, 128):
    add("c19_end_tag_width1_content%d" % n, ["C19", "C09"], "wr.rs", "U", "end_tag of a width-1 master with %d content bytes: Err, master still open, buffer unchanged" % n,
        "content bytes concrete", timeout_s=900, mem_gb=8, stubs=WST, assumes=C19A)
add("c19_unknown_size_non_master", ["C19"], "wr.rs", "U", "write_advanced(leaf, unknown size): Err and state == snapshot", "all u64 payload values, spec Tree", timeout_s=900, mem_gb=8, stubs=WST, assumes=C19A)
add("c19_raw_malformed_id", ["C19"], "wr.rs", "U", "write(raw tag with malformed id): TagIdError(id) and state == snapshot", "all ids outside Tree that are not well-formed", timeout_s=900, mem_gb=8, stubs=WST, assumes=C19A)
add("c19_full_invalid_child", ["C19", "C09"], "wr.rs", "U", "public write(Full(A,[L3 (misplaced)])) under an open Root: UnexpectedTag(L3) and state == snapshot",
    "spec Tree; child value symbolic (u64); 2 symbolic buffered bytes", timeout_s=1500, mem_gb=12, stubs=WST, assumes=C19A)

# ---------------------------------------------------------------- C18 derive corpus
for d, what in (("d1", "all six data types, depth-2 paths, 1-3 byte ids (the repo's test declaration)"),
                ("d2", "two roots, depth-3 path, trailing global placeholders (-), (1-2), (-3), root-level (2-), 4-byte ids"),
                ("d3", "intermediate global placeholders, master under a global, root-level leaf, 8-byte id"),
                ("d4", "single-variant declaration")):
    for asp, dec in (("tables", "generated get_tag_data_type/get_path_by_id exact on declared ids (incl. Void, Crc32) and None/[] elsewhere; both front-ends agree"),
                     ("numeric", "unsigned/signed/float constructors Some iff the id has that type; tag returns id + payload through the matching accessor only (both front-ends)"),
                     ("heap", "utf8/binary/master constructors Some iff type matches, payload via matching accessor only; raw-tag variant keeps id and bytes, binary-only (both front-ends)")):
        add("c18_%s_%s" % (asp, d), ["C18"], "c18.rs", "L", dec,
            "declaration %s (%s) expanded by the real macros; probe id: all 2^64 values; payloads symbolic" % (d, what), timeout_s=900, mem_gb=8)
