"""Harness registry: which Kani harness serves which property, at which tier, with
which resources. Shapes: L = leaf (public pure function, fully symbolic arguments),
U = unit via cfg-guarded hook (private function, symbolic window + seeded pre-state),
S = skeleton + symbolic slots via the public API (structure enumerated)."""

HARNESSES = []
BY_NAME = {}


def add(name, props, file, shape, decides, bounds, tier="quick", timeout_s=600, mem_gb=6, stubs=(), assumes=(), **kw):
    h = dict(name=name, props=list(props), file=file, shape=shape, decides=decides, bounds=bounds, tier=tier,
             timeout_s=timeout_s, mem_gb=mem_gb, stubs=list(stubs), assumes=list(assumes))
    h.update(kw)
    HARNESSES.append(h)
    BY_NAME[name] = h


GLOBAL_ASSUMPTIONS = [
    "Kani/CBMC model of Rust semantics, alloc and memcpy (dev profile: overflow checks and debug assertions on)",
    "results are bounded: they say nothing outside each harness's stated bounds",
]

PROP_NOTES = {}

# ---------------------------------------------------------------- C15
V64 = "all 2^64 values"
add("c15_as_vint_shortest", ["C15"], "c15.rs", "L", "as_vint: Err iff v>=2^56 else shortest reference encoding", V64)
for L in range(1, 9):
    add("c15_as_vint_len_%d" % L, ["C15"], "c15.rs", "L",
        "as_vint_with_length::<%d>: overflow iff v>=2^%d, else exactly %d reference bytes, read_vint inverts" % (L, 7 * L, L), V64)
add("c15_read_vint_total", ["C15"], "c15.rs", "L", "read_vint total; need-more iff proper prefix; length within slice; value == reference",
    "all 2^72 contents of a 9-byte array x every slice length 0..=9")
add("c15_roundtrip_default", ["C15", "C01"], "c15.rs", "L", "read_vint(as_vint(v)) == (v, len)", "all v < 2^56", assumes=["v < 2^56"])
add("c15_signed_default", ["C15"], "c15.rs", "L", "as_signed_vint: accepts exactly -2^55<v<2^55, shortest width, read_signed_vint inverts", "all 2^64 i64 values")
add("c15_signed_with_length", ["C15"], "c15.rs", "L", "as_signed_vint_with_length(l): accepts exactly -2^(7l-1)<v<2^(7l-1), width l, decoders invert/agree",
    "all i64 x widths 1..=8", assumes=["1 <= l <= 8 (other widths are documented misuse)"])
add("c15_read_signed_total", ["C15"], "c15.rs", "L", "read_signed_vint total, agrees with read_vint on need-more/error/length, value == two's complement of the 7l-bit field",
    "all 2^72 contents of a 9-byte array x every slice length 0..=9")
add("c15_is_vint", ["C15"], "c15.rs", "L", "is_vint(v) == (byte length of v == length announced by its marker)", V64)

# ---------------------------------------------------------------- C16 (leaf part)
SL9 = "all 2^72 contents of a 9-byte array x every slice length 0..=9"
add("c16_arr_to_u64", ["C16", "C02"], "c16.rs", "L", "arr_to_u64: big-endian value for len<=8 (empty=0), Err for 9; total", SL9)
add("c16_arr_to_i64", ["C16", "C02", "C05"], "c16.rs", "L", "arr_to_i64: sign-extended two's complement for len<=8 (empty=0), Err for 9; total", SL9)
add("c16_arr_to_f64", ["C16", "C02"], "c16.rs", "L", "arr_to_f64: bit-exact for len 8, exact IEEE widening for len 4, Err otherwise; total", SL9)

# ---------------------------------------------------------------- C01 (S) size-field composition
for L in range(1, 9):
    add("c01_size_width_%d" % L, ["C01"], "c01.rs", "L",
        "as_vint_with_length::<%d>(s) is rejected or is read back (read_vint + RFC 8794 unknown-size rule) as Known(s); only s=2^%d-1 reads as unknown" % (L, 7 * L), V64)

# ---------------------------------------------------------------- header unit (shared)
IO_HASH = ["io", "hash"]
HDR_DEC = ("peek_valid_tag_header == ref_header(window[cursor..fill]) + fault set: accepted header mirrors the bytes (C03a), result independent of stale bytes "
           "beyond the fill level (C04a), no panic and 2<=header_len<=available (C05a), truncated header -> accurate EOF error never corruption (C12a), "
           "rejections carry their own kind/id/offset under every tolerance mask (C13), size above limit never accepted, no overflow (C17a)")
add("hdr_flat_full", ["C03", "C04", "C05", "C13", "C14", "C17"], "hdr.rs", "U", HDR_DEC,
    "24-byte buffer fully symbolic, cursor 0..=3, fill >= cursor+16 (every header fits), base offset < 2^40, all 8 masks, limit any Option<usize>; spec Flat",
    timeout_s=1800, mem_gb=16, stubs=IO_HASH, big_stack=True,
    assumes=["Inv_buf: cursor <= fill <= allocation = 24, buffer_offset = Some(base)", "empty tag stack, document path not yet determined"])
add("hdr_flat_trunc", ["C03", "C04", "C05", "C12", "C13", "C17"], "hdr.rs", "U", HDR_DEC,
    "24-byte buffer fully symbolic incl. the stale bytes behind the fill level, fill 0..=15, cursor 0, source at EOF, base offset < 2^40, all 8 masks, limit any; spec Flat",
    timeout_s=1800, mem_gb=16, stubs=IO_HASH, big_stack=True,
    assumes=["cursor == 0: the state ensure_data_read leaves at EOF (its view-preservation contract is decided by the edr_* harnesses)", "source returns Ok(0)",
             "empty tag stack, document path not yet determined"])

# ---------------------------------------------------------------- ensure_data_read unit
EDR_B = "24-byte symbolic stream, 3 scripted reads of 0..=8 bytes each (0 = temporary EOF) then EOF, request length as in the name (the call sites use 1, 8, 16 and payload sizes), 16 symbolic stale bytes, fill<=8, cursor<=fill, base<2^40"
for n, cap, ff in (("edr_refill_cap16_len16", 16, False), ("edr_first_fill_cap16_len8", 16, True), ("edr_refill_cap8_len16", 8, False),
                   ("edr_first_fill_cap0_len1", 0, True), ("edr_refill_cap16_len5", 16, False),
                   ("edr_refill_cap16_len16_at_6_8", 16, False), ("edr_refill_cap8_len16_at_4_8", 8, False)):
    # the two symbolic-cursor refill units also serve C03: every reported offset is current_offset(), which a refill must not move (seed C03-s4)
    add(n, ["C04", "C05", "C17"] + (["C03"] if n in ("edr_refill_cap16_len16", "edr_refill_cap16_len5") else []), "edr.rs", "U",
        "ensure_data_read: allocation <= max(old, requested); position fixed, buffered window == stream at every absolute position, only extended, no byte lost/duplicated, "
        "Ok(true) => bytes present, Ok(false) only after the source returned 0" + (" (first fill)" if ff else ""),
        EDR_B + ", allocation %d" % cap, timeout_s=600, mem_gb=6, stubs=IO_HASH,
        assumes=["Inv_buf on the seeded state", "source delivers the stream in order (Read contract)"])
add("edr_source_error", ["C05"], "edr.rs", "U", "a failing source.read surfaces as ReadError carrying the same OS error; never swallowed",
    "failing call index 0..=2, 3 scripted reads of 0..=3 bytes, request 8 bytes, allocation 16", timeout_s=900, mem_gb=8, stubs=IO_HASH,
    assumes=["source fails with from_raw_os_error(5)"])

# ---------------------------------------------------------------- writer units
WST = ["io", "fmt", "toolerr"]
CLS = {1: "values whose minimal width is 1 byte", 2: "minimal width 2", 4: "minimal width 4", 8: "minimal width 8"}
for c in (1, 2, 4, 8):
    add("c16w_uint_w0_c%d" % c, ["C16", "C01", "C02"], "wr.rs", "U", "write_unsigned_int_tag::<0>: id | 0x80+w | big-endian, w minimal in {1,2,4,8}; arr_to_u64 inverts",
        "all u64 in the class: %s (the 4 class harnesses together cover all 2^64 values)" % CLS[c], timeout_s=1200, mem_gb=8, stubs=WST)
    add("c16w_int_w0_c%d" % c, ["C16", "C01", "C02"], "wr.rs", "U", "write_signed_int_tag::<0>: minimal two's-complement width; arr_to_i64 inverts",
        "all i64 in the class: %s (4 classes cover all 2^64 values)" % CLS[c], timeout_s=1200, mem_gb=8, stubs=WST)
    add("c09_uint_w2_c%d" % c, ["C09", "C01", "C16"], "wr.rs", "U", "write_unsigned_int_tag::<2>: same id and payload bytes as the default form, size field exactly 2 bytes",
        "all u64 in the class: %s" % CLS[c], timeout_s=1200, mem_gb=8, stubs=WST)
    add("c09_int_w2_c%d" % c, ["C09", "C01", "C16"], "wr.rs", "U", "write_signed_int_tag::<2>: same id and payload bytes as the default form, size field exactly 2 bytes",
        "all i64 in the class: %s" % CLS[c], timeout_s=1200, mem_gb=8, stubs=WST)
add("c09_uint_w8_c4", ["C09", "C01"], "wr.rs", "U", "write_unsigned_int_tag::<8>, 4-byte class", "all u64 with minimal width 4", tier="thorough", timeout_s=1200, mem_gb=8, stubs=WST)
add("c09_int_w8_c4", ["C09", "C01"], "wr.rs", "U", "write_signed_int_tag::<8>, 4-byte class", "all i64 with minimal width 4", tier="thorough", timeout_s=1200, mem_gb=8, stubs=WST)
add("c09_float_w3", ["C09", "C01"], "wr.rs", "U", "write_float_tag::<3>: size field exactly 3 bytes, payload bit-exact", "all 2^64 bit patterns", timeout_s=1200, mem_gb=8, stubs=WST)
add("c16w_float", ["C16", "C01", "C02"], "wr.rs", "U", "write_float_tag::<0>: 8 bytes, bit pattern preserved; arr_to_f64 inverts bit for bit", "all 2^64 bit patterns incl. NaNs", timeout_s=1200, mem_gb=8, stubs=WST)
add("c09_id_bytes", ["C09", "C01"], "wr.rs", "U", "element id emitted unchanged in exactly its byte length", "all well-formed ids (1..=8 bytes)", timeout_s=1200, mem_gb=8, stubs=WST,
    assumes=["id well-formed (the writer is only given spec ids or ids that passed is_vint)"])
for W, C, tier in ((0, 2, "quick"), (1, 2, "quick"), (8, 2, "quick"), (2, 2, "thorough"), (3, 2, "thorough"), (4, 2, "thorough"), (5, 2, "thorough"),
                   (6, 2, "thorough"), (7, 2, "thorough")):  # the empty-content shapes (w0_c0, w8_c0) end in a kani-driver panic / solver error and are not registered
    add("c09_end_tag_w%d_c%d" % (W, C), ["C09", "C01", "C10"], "wr.rs", "U",
        "end_tag: buffer == prefix | id | size field of width %s | content; master popped" % (W or "shortest"),
        "concrete shape: 2 prefix bytes, %d content bytes, 1-byte id; all byte values symbolic" % C, tier=tier, timeout_s=1800, mem_gb=16, stubs=WST, big_stack=True,
        assumes=["Inv_w: open master's start <= buffer length"])
add("c01w_binary_len_126_128", ["C01", "C09"], "wr.rs", "U", "write_binary_tag::<0> with a 126/127/128-byte payload: size field reads back as Known(len), not as the reserved unknown-size pattern",
    "payload length 126..=128 symbolic, payload bytes concrete zeros (only the length matters)", timeout_s=1200, mem_gb=8, stubs=WST)
# c01w_end_tag_content_127 (a master with 127 content bytes closed by end_tag) times out (1200 s twice): not registered.
C19A = ["Inv_w on the seeded state; state compared = working buffer (first 8 bytes + length), open-master stack (depth <= 2), bytes handed to the destination"]
add("c19_binary_width1_overflow", ["C19", "C09"], "wr.rs", "U", "write_binary_tag::<1> with 126..129-byte payload: Err iff len >= 127; on Err state == snapshot",
    "payload length 126..=129 (bytes concrete), 2 symbolic buffered bytes, one known-size master open", timeout_s=900, mem_gb=8, stubs=WST, assumes=C19A)
add("c19_end_tag_outer_id_inner_known", ["C19"], "wr.rs", "U", "end_tag(outer master's id) while a known-size inner master is open: Err and state == snapshot", "3 symbolic buffered bytes", timeout_s=900, mem_gb=8, stubs=WST, assumes=C19A)
add("c19_end_tag_outer_id_inner_unknown", ["C19"], "wr.rs", "U", "end_tag(outer master's id) while an unknown-size inner master is open: Err and state == snapshot", "3 symbolic buffered bytes", timeout_s=900, mem_gb=8, stubs=WST, assumes=C19A)
add("c19_end_tag_any_id_inner_unknown", ["C19"], "wr.rs", "U", "end_tag(any other id), inner unknown-size: Err and state == snapshot", "all 2^64-1 other ids", timeout_s=900, mem_gb=8, stubs=WST, assumes=C19A)
add("c19_end_tag_any_id_inner_known", ["C19"], "wr.rs", "U", "end_tag(any other id), inner known-size: Err and state == snapshot", "all 2^64-1 other ids", tier="thorough", timeout_s=2400, mem_gb=12, stubs=WST, assumes=C19A)
add("c19_end_tag_no_open", ["C19"], "wr.rs", "U", "end_tag with nothing open: Err and state unchanged", "all ids", timeout_s=600, mem_gb=6, stubs=WST, assumes=C19A)
# c19_end_tag_width1_content127/128 (End of a width-1 master with 127/128 content bytes) and c19_full_invalid_child (public write of a
# Full master with a misplaced child) are not registered: 3000 s timeouts (the 127-byte splice; the recursive public write).
add("c19_unknown_size_non_master", ["C19"], "wr.rs", "U", "write_advanced(leaf, unknown size): Err and state == snapshot", "all u64 payload values, spec Tree", timeout_s=900, mem_gb=8, stubs=WST, assumes=C19A)
add("c19_raw_malformed_id", ["C19"], "wr.rs", "U", "write(raw tag with malformed id): TagIdError(id) and state == snapshot", "all ids outside Tree that are not well-formed", timeout_s=900, mem_gb=8, stubs=WST, assumes=C19A)

# ---------------------------------------------------------------- C18 derive corpus
for d, what in (("d1", "all six data types, depth-2 paths, 1-3 byte ids (the repo's test declaration)"),
                ("d2", "two roots, depth-3 path, trailing global placeholders (-), (1-2), (-3), root-level (2-), 4-byte ids"),
                ("d3", "intermediate global placeholders, master under a global, root-level leaf, 8-byte id"),
                ("d4", "single-variant declaration")):
    for asp, dec in (("tables", "generated get_tag_data_type/get_path_by_id exact on declared ids (incl. Void, Crc32) and None/[] elsewhere; both front-ends agree"),
                     ("numeric", "unsigned/signed/float constructors Some iff the id has that type; tag returns id + payload through the matching accessor only (both front-ends)"),
                     ("heap", "utf8/binary/master constructors Some iff type matches, payload via matching accessor only; raw-tag variant keeps id and bytes, binary-only (both front-ends)")):
        add("c18_%s_%s" % (asp, d), ["C18"], "c18.rs", "L", dec,
            "declaration %s (%s) expanded by the real macros; probe id: all 2^64 values; payloads symbolic" % (d, what), timeout_s=900, mem_gb=8)

# ---------------------------------------------------------------- hierarchy decision logic
for p, c in ((0, 0), (0, 1), (1, 0), (1, 1), (1, 2), (1, 3), (2, 0), (2, 1), (2, 2), (2, 3), (3, 0), (3, 1), (3, 2), (3, 3)):
    add("c11_validate_p%d_c%d" % (p, c), ["C11", "C06", "C02"], "hier.rs", "U", "validate_tag_path(tag, chain) == ref_match(chain, declared path) in both directions",
        "ONE symbolic declared path of %d parts: each Id over a 4-id alphabet or Global(min,max) with min,max in {None,0..3}, max!=0, no adjacent globals, placeholders in ANY position; every chain of %d known-size masters over the alphabet" % (p, c),
        timeout_s=1800, mem_gb=10, assumes=["all open masters known-size (writer shape; unknown-size closing is decided by hdr_tree_*)", "spec OnePath: a single probe element with the symbolic path"])
add("c07_is_ended_by_table", ["C07", "C06", "C11"], "hier.rs", "U", "is_ended_by(m, e) == (e sibling of m | instance of an ancestor of m | root), never for globals or undeclared ids",
    "m over the 5 masters of spec Tree, e: all 2^64 ids", timeout_s=900, mem_gb=6)

# ---------------------------------------------------------------- try_recover unit
REC_A = ["seeded state: one known-size Root open (offsets consistent, Inv_stack), document path determined, strict mode, source at EOF", "spec Mini (Root master, one unsigned child)"]
add("c14_recover_junk1", ["C14", "C05"], "recover.rs", "U", "try_recover after 1 junk byte before a valid child: Ok, cursor +1 exactly, Root size +1, next header is the planted child",
    "junk byte: any value that is no id of the spec; Root size: any >= fit; base offset < 2^40; child payload and trailing buffer bytes symbolic",
    timeout_s=1800, mem_gb=16, stubs=IO_HASH, big_stack=True, assumes=REC_A + ["premise of the property: the following tag fits Root at its ORIGINAL size after the shift"])
# c14_recover_junk2 (two junk bytes) did not finish within 25 min in the thorough attempt: not registered.
add("c14_recover_arbitrary_3", ["C14", "C05"], "recover.rs", "U", "try_recover on an arbitrary 3-byte remainder: no panic, never backwards nor past the end, Err only EOF/ReadError",
    "3 symbolic bytes behind the cursor then EOF; Root size any; stale bytes symbolic", timeout_s=1800, mem_gb=16, stubs=IO_HASH, big_stack=True, assumes=REC_A)
add("c14_recover_at_end", ["C14", "C05"], "recover.rs", "U", "try_recover with nothing left: no panic, position unchanged, EOF error", "cursor == fill, source exhausted",
    timeout_s=900, mem_gb=8, stubs=IO_HASH, big_stack=True, assumes=REC_A)
for n, W, u in (("c09_binary_w0", 0, 0), ("c09_binary_w1", 1, 0), ("c09_binary_w4", 4, 0), ("c09_binary_w8", 8, 0), ("c09_utf8_w0", 0, 1), ("c09_utf8_w2", 2, 1)):
    add(n, ["C09", "C01", "C10"], "wr.rs", "U", "write_%s_tag::<%d>: buffer' == buffer | id | size field of width %s | payload; destination untouched while a known-size master is open" % ("utf8" if u else "binary", W, W or "default"),
        "payload length 0..=3, bytes symbolic%s; 2 symbolic buffered bytes" % (" (ASCII)" if u else ""), timeout_s=1200, mem_gb=8, stubs=WST, assumes=C19A)
add("c19_utf8_width1_len127", ["C19", "C09"], "wr.rs", "U", "write_utf8_tag::<1> with a 127-byte payload: Err and state == snapshot", "payload bytes concrete, 2 symbolic buffered bytes", timeout_s=1200, mem_gb=8, stubs=WST, assumes=C19A)
add("c19_utf8_width1_len126", ["C19", "C09"], "wr.rs", "U", "write_utf8_tag::<1> with a 126-byte payload: Ok, id + 1-byte size field", "payload bytes concrete, 2 symbolic buffered bytes", timeout_s=1200, mem_gb=8, stubs=WST, assumes=C19A)
add("c09_width_dispatch", ["C09", "C01"], "wr.rs", "U", "public write_advanced(set_size_byte_count(w)) on an empty binary element: size field is exactly w bytes encoding 0",
    "w symbolic 1..=8; spec Tree, global element under one known-size master", timeout_s=1800, mem_gb=12, stubs=WST)
add("c09_unknown_size_equivalence", ["C09"], "wr.rs", "U", "deprecated write_unknown_size == write_advanced(is_unknown_sized_element): same result, same writer state; id + 8-byte all-ones size; master open as unknown",
    "outer master known/unknown symbolic, 2 symbolic buffered bytes, spec Tree", timeout_s=1200, mem_gb=8, stubs=WST)
for k in (1, 3):
    add("c09_flush_short_%d" % k, ["C09", "C10"], "wr.rs", "U", "private_flush into a destination accepting <= %d bytes per write: destination == buffer, buffer emptied" % k,
        "0..=7 buffered symbolic bytes", timeout_s=1200, mem_gb=8, stubs=WST, assumes=["destination accepts at least 1 byte per call (Write contract)"])
add("c09_flush_short_2_of_5", ["C09", "C10"], "wr.rs", "U", "private_flush of exactly 5 buffered bytes into a destination accepting <= 2 bytes per write: destination == buffer, buffer emptied",
    "5 symbolic bytes (concrete count)", timeout_s=900, mem_gb=8, stubs=WST, assumes=["destination accepts at least 1 byte per call (Write contract)"])
for n, what in (("c10_stream_no_master", "no master open"), ("c10_stream_unknown_master", "one unknown-size master open"), ("c10_stream_known_master", "one known-size master open"),
                ("c10_stream_unknown_in_known", "unknown-size master inside a known-size one"), ("c10_stream_known_in_unknown", "known-size master inside an unknown-size one")):
    add(n, ["C10"], "wr.rs", "U", "public write of a global binary element, %s: destination only extended; no known-size master open => buffer empty and element fully handed over; otherwise destination untouched and buffer extended" % what,
        "2 symbolic payload bytes, 3 symbolic buffered bytes; spec Tree", timeout_s=1200, mem_gb=8, stubs=WST, assumes=["Inv_w: no known-size master open => working buffer empty"])

# extension round: C10 from the pre-states the real writer reaches after an unknown-size Start (header pending, not yet handed over)
EXT_A = ["pre-state: only unknown-size masters open, the buffer holds N arbitrary pending bytes (the headers of unknown-size masters started since the last hand-over)"]
add("c10_end_unknown_pending_header", ["C10"], "ext.rs", "U", "public write(End(Root)) with [Root unknown-size] open and the 9-byte header still pending: Ok, master closed, buffer empty, destination == the 9 pending bytes in order",
    "9 symbolic pending bytes; spec Tree", timeout_s=1200, mem_gb=4, stubs=WST, assumes=EXT_A)
add("c10_end_unknown_nested_pending_headers", ["C10"], "ext.rs", "U", "public write(End(A)) with [Root unknown, A unknown] open and both headers (18 bytes) pending: Ok, A closed, buffer empty, destination == the 18 pending bytes in order",
    "18 symbolic pending bytes; spec Tree", timeout_s=1200, mem_gb=4, stubs=WST, assumes=EXT_A)
add("c10_end_unknown_nothing_pending", ["C10"], "ext.rs", "U", "public write(End(Root)) with [Root unknown-size] open and an empty buffer: Ok, master closed, nothing buffered, destination untouched",
    "empty buffer; spec Tree", timeout_s=1200, mem_gb=4, stubs=WST, assumes=EXT_A)
add("c10_element_after_unknown_start", ["C10"], "ext.rs", "U", "public write of a global binary element with [Root unknown-size] open and the 9-byte header pending: buffer empty afterwards, destination == header | element",
    "9 symbolic pending bytes, 2 symbolic payload bytes; spec Tree", timeout_s=1200, mem_gb=4, stubs=WST, assumes=EXT_A)
add("c10_unknown_start_keeps_handed_over_prefix", ["C10"], "ext.rs", "U", "public write_advanced(Start(A), unknown size) under [Root unknown]: accepted, A open, destination ++ buffer == previous content | header(A) (nothing lost or reordered; whether the header is handed over at once is left open, as in the property)",
    "2 symbolic pending bytes; spec Tree", timeout_s=1200, mem_gb=4, stubs=WST, assumes=EXT_A)

# extension round: header parsing across a refill (some header bytes buffered, the rest dripping in from the source)
for n, bufn, per, cap in (("hdr_refill_buf4_per1_cap16", 4, 1, 16), ("hdr_refill_buf1_per3_cap16", 1, 3, 16), ("hdr_refill_buf8_per1_cap24", 8, 1, 24), ("hdr_refill_buf0_per5_cap16", 0, 5, 16)):
    add(n, ["C04", "C12", "C03"], "ext2.rs", "U", "peek_valid_tag_header with %d of 16 stream bytes buffered (allocation %d) and the rest delivered %d byte(s) per read: never an EOF/read error, result == ref_header(the 16 stream bytes), position unchanged, buffered bytes == stream bytes" % (bufn, cap, per),
        "16 symbolic stream bytes; split/read size/allocation concrete; spec Flat, strict mode, no size limit, nothing open", tier="quick", timeout_s=1500, mem_gb=8, stubs=["io", "hash"], assumes=["pre-state: cursor 0, base offset 0, source never fails"])

# ---------------------------------------------------------------- public-API skeleton documents (Flat, <= 3 next() calls)
DOC_A = ["structure (element types, payload lengths, cut, read partition, capacity) is concrete and enumerated; only payload bytes are symbolic", "spec Flat (all elements at root level), strict mode",
         "utf8 payloads are concrete ASCII text (all other payload bytes symbolic)"]
DOCS = [("doc_u3_u1", "[U:3][U:1]"), ("doc_i2_i0", "[I:2][I:0]"), ("doc_f4_f8", "[F:4][F:8]"), ("doc_s1_b3", "[S:1][B:3]"), ("doc_b0_u8", "[B:0][U:8]"),
        ("doc_u0_i8", "[U:0][I:8]"), ("doc_i1_s0", "[I:1][S:0]"), ("doc_f3_u1", "[F:3 (invalid float length)][U:1]"), ("doc_i7_f0", "[I:7][F:0 (invalid float length)]"), ("doc_b8_b1", "[B:8][B:1]")]
QUICK_DOCS = {"doc_u3_u1", "doc_i2_i0", "doc_f4_f8", "doc_s1_b3", "doc_b0_u8", "doc_f3_u1"}
for n, d in DOCS:
    add(n, ["C03", "C05", "C16", "C02"], "doc.rs", "S", "public next() x3-4 on the complete document %s from a slice: each item has the id at its offset, the reference decoding of exactly its payload bytes, "
        "offsets tile the stream; then None, and None again (fused); invalid float length -> CorruptedTagData, no panic" % d,
        "all payload byte values; capacity 32", tier="quick" if n in QUICK_DOCS else "thorough", timeout_s=1500, mem_gb=12, stubs=IO_HASH, big_stack=True, assumes=DOC_A)
# cut position 1 (cut_u3_b2_at1) is not registered: CBMC's post-processing emits output that kani-driver 0.68 cannot parse
# (driver panic in cbmc_output_parser.rs:477) - deterministic for this one harness, reproduced twice.
for c in (0, 2, 3, 4, 5, 7, 8):  # position 6 (solver error / OOM on the correct tree) is not registered either
    add("cut_u3_b2_at%d" % c, ["C12", "C05", "C03"], "doc.rs", "S", "document [U:3][B:2] truncated after %d of 9 bytes: exactly the contained tags, then None on a tag boundary, else UnexpectedEOF with start/id/size/partial data accurate; never corruption" % c,
        "all payload byte values; cut position %d; capacity 32; slice source" % c, tier="quick" if c in (2, 3, 4, 5, 8) else "thorough", timeout_s=1500, mem_gb=12, stubs=IO_HASH, big_stack=True, assumes=DOC_A)
CH = [("chunk_u2_b1_1x7", "1-byte reads, capacity 16", "quick"), ("chunk_u2_b1_2_3_2", "reads 2|3|2, capacity 16", "quick"), ("chunk_u2_b1_4_1_2", "reads 4|1|2, capacity 16", "thorough"),
      ("chunk_u2_b1_cap0", "capacity 0, reads 3|rest", "quick"), ("chunk_u2_b1_cap1", "capacity 1", "quick"), ("chunk_u2_b1_cap5", "capacity 5, reads 2|2|rest", "thorough"),
      ("chunk_u2_b1_pause", "reads 4|Ok(0) pause at the tag boundary|3, EOF closing disabled", "quick"),
      ("slice_u2_b1_cap0", "slice source, capacity 0", "quick")]
for n, d, tier in CH:
    add(n, ["C04", "C05", "C12"] if "cut" in n else ["C04", "C05"], "doc.rs", "S", "document [U:2][B:1] (7 bytes) read with %s: same items, offsets and termination as the reference (= the one-shot result)" % d,
        "all payload byte values; partition/capacity as named", tier=tier, timeout_s=1500, mem_gb=12, stubs=IO_HASH, big_stack=True, assumes=DOC_A)

# ---------------------------------------------------------------- header unit on spec Tree with a seeded stack
TREE_A = ["Inv_stack/Inv_strict on the seeded stack: a valid chain of open masters over Tree, starts increasing and before the cursor, known ranges nested, cursor before every known end",
          "1-byte id and 1-2 byte size field (general header shapes are decided by hdr_flat_*)", "source at EOF, 20 bytes buffered behind the cursor"]
# depth >= 2 ([Root, A], [Root, A, B], [Root, A2]; symbolic or all-known sizes; with or without the validator call) was measured
# intractable in the build round: 26-30 min, then a solver error beyond the 25-48 GB cap. Only depth 0 and 1 are registered.
# depth 1 ([Root], [Root2], symbolic or known sizes) ran out of memory / solver error in the thorough attempt as well.
for n, ch in (("hdr_tree_chain_empty", "no master open"),):
    add(n, ["C11", "C06", "C13", "C17", "C07"], "hdr_tree.rs", "U",
        "peek_valid_tag_header with open masters %s: accepted iff (id in spec | tolerated) and declared path matches the chain left after closing unknown-size masters (| tolerated) and extent inside every known-size ancestor (| tolerated) and size <= limit; "
        "each rejection carries its own kind, the offending id and offset" % ch,
        "every 1-byte id x every 1-2 byte size field; each open master known/unknown-size with symbolic extents; all 8 tolerance masks; limit any Option<usize>; base offset < 2^40",
        tier="quick" if n in ("hdr_tree_chain_empty",) else "thorough",
        timeout_s=5400, mem_gb=16, stubs=IO_HASH, big_stack=True, assumes=TREE_A)
for n, e in (("hdr_tree_first_l3", "L3 (Root/A/B/L3)"), ("hdr_tree_first_l2", "L2 (Root/A/L2)"), ("hdr_tree_first_b", "master B (Root/A/B)"), ("hdr_tree_first_a2", "master A2 (Root/A2)"),
             ("hdr_tree_first_root", "Root"), ("hdr_tree_first_void", "global Void")):
    add(n, ["C06", "C03"], "hdr_tree.rs", "U", "first element of a stream is %s (position not yet fixed): a non-global element fixes it and its declared ancestors become open masters stored as End, offset 0, unknown size; a global does not" % e,
        "every 1-byte size field, 20 symbolic bytes behind, strict mode", tier="quick" if n in ("hdr_tree_first_l3", "hdr_tree_first_b", "hdr_tree_first_void") else "thorough",
        timeout_s=1200, mem_gb=10, stubs=IO_HASH, big_stack=True, assumes=["fresh iterator state, 20 bytes buffered"])

# documents with masters (docm.rs: Root{U} on Mini, 4-6 next() calls) were attempted again in the build round with
# unwind 10 and concrete structure: docm_known and docm_unknown_eof both hit the 3600 s timeout still in symex
# (DESIGN section 2 row 38 confirmed). They are not registered: a check that can only be inconclusive helps nobody.

# ---------------------------------------------------------------- read_next steps that need no tag to be parsed
RN_A = ["seeded state: open masters over Tree with consistent offsets (Inv_stack), everything buffered consumed, source at EOF", "empty emission queue"]
# rn_eof_closes_{1,2,3} / rn_size_closes_{2,3} (rn.rs: End emission at end of input / when a known range is exhausted) are NOT
# registered: measured in the build round, pushing even two items into the emission queue (a VecDeque of ~100-byte Result
# items) drives CaDiCaL past 60 GB (65 GB max RSS without limits; solver error under the 32 GB cap), with or without a
# pre-reserved queue. Only the variant that emits nothing is tractable:
add("rn_eof_noclose_2", ["C04", "C06"], "rn.rs", "U", "read_next at (temporary) end of input with EOF closing disabled: nothing emitted, masters stay open", "2 masters, symbolic sizes/offsets",
    timeout_s=1200, mem_gb=10, stubs=IO_HASH, big_stack=True, assumes=RN_A)

# cut_b14_then_one_byte (a 16-byte element exactly filling a capacity-16 buffer, then one dangling byte) is NOT registered:
# it finds the seeded bugs C04-s1/C12-s2 in ~18 min, but on the correct tree the solver fails beyond 32 GB.

# ---------------------------------------------------------------- validator with unknown-size masters (direct call)
VT = [("c11_vtree_root_u", "[Root?]"), ("c11_vtree_root_a_ku", "[Root, A?]"), ("c11_vtree_root_a_uk", "[Root?, A]"), ("c11_vtree_root_a_uu", "[Root?, A?]"),
      ("c11_vtree_root_a_b_kku", "[Root, A, B?]"), ("c11_vtree_root_a_b_kuk", "[Root, A?, B]"), ("c11_vtree_root_a_b_kuu", "[Root, A?, B?]"), ("c11_vtree_root_a_b_ukk", "[Root?, A, B]"),
      ("c11_vtree_root_a_b_uku", "[Root?, A, B?]"), ("c11_vtree_root_a_b_uuk", "[Root?, A?, B]"), ("c11_vtree_root_a_b_uuu", "[Root?, A?, B?]"), ("c11_vtree_root_a2_uk", "[Root?, A2]"),
      ("c11_vtree_root_a2_uu", "[Root?, A2?]"), ("c11_vtree_root2_u", "[Root2?]")]
for n, ch in VT:
    add(n, ["C11", "C06", "C07", "C02"], "hier.rs", "U", "validate_tag_path over Tree with open masters %s (? = unknown size): accepted iff the declared path matches the chain left after the element closed the trailing unknown-size masters it ends" % ch,
        "every declared element id of Tree, each tried as a constant (finite domain enumerated exhaustively inside the harness; NO symbolic slot: CBMC acts as an exhaustive interpreter here); chain and known/unknown pattern enumerated", timeout_s=900, mem_gb=8,
        assumes=["element id is in the specification (the call sites only validate specification elements)"])

# ---------------------------------------------------------------- containment on deep stacks (minimal symbolic state)
for n, ch in (("hdr_contain_kk", "[Root, A] both known-size"), ("hdr_contain_ku", "[Root known, A unknown]"), ("hdr_contain_kkk", "[Root, A, B] all known-size"),
              ("hdr_contain_kuk", "[Root known, A unknown, B known]"), ("hdr_contain_kku", "[Root, A known, B unknown]")):
    add(n, ["C06", "C13"], "hdr_tree.rs", "U", "peek_valid_tag_header with open masters %s, id/hierarchy problems tolerated, no limit: a global element is rejected as OversizedChildElement (at its offset) iff it overruns ANY known-size ancestor" % ch,
        "element size 0..=126 (1-byte size field) symbolic; every known master's size symbolic (nested, not exhausted); offsets concrete",
        timeout_s=1500, mem_gb=12, stubs=IO_HASH, big_stack=True, assumes=["Inv_stack on the seeded stack", "InvalidTagIds and HierarchyProblems tolerated, size limit off"])
add("c10_raw_unknown_in_known", ["C10"], "wr.rs", "U", "write_raw under [Root known-size, A unknown-size]: destination untouched, element buffered", "2 symbolic payload bytes, 3 symbolic buffered bytes", timeout_s=1200, mem_gb=8, stubs=WST,
    assumes=["Inv_w"])
add("c10_raw_unknown_only", ["C10"], "wr.rs", "U", "write_raw under one unknown-size master: element handed over completely, buffer empty", "2 symbolic payload bytes", timeout_s=1200, mem_gb=8, stubs=WST, assumes=["Inv_w"])
# c10_flush_closes_empty_{root,inner} (public flush() closing an opened-but-empty known-size master) are NOT registered:
# the seeded bug C10-s2 is found in ~4 min, but on the correct tree the proof runs out of memory (flush() loops over
# end_tag, whose nine splice arms are unrolled per iteration) - a check that cannot pass is not a check.

# ---------------------------------------------------------------- writer call site of the hierarchy validation
for n, d in (("c11_writer_unknown_start_misplaced", "write_advanced(Start(A), unknown size) under [Root2]"), ("c11_writer_unknown_start_misplaced_deprecated", "deprecated write_unknown_size(Start(A)) under [Root2]"),
             ):  # c11_writer_known_start_misplaced (symbolic choice of three tags through the public write) timed out at 1200 s: not registered
    add(n, ["C11", "C19", "C09"], "wr.rs", "U", "%s: UnexpectedTag carrying the id, writer state == snapshot" % d, "2 symbolic buffered bytes; spec Tree", timeout_s=1200, mem_gb=6, stubs=WST, assumes=C19A)

# ---------------------------------------------------------------- quick-tier budget (a quick check must finish a cold run in well under 900 s)
# A harness tagged with several properties runs in the quick tier of a property only if it is in that property's keep-list
# (when one is given); everywhere else it runs in thorough. Verdict soundness does not depend on this: it only bounds the
# work a quick check does. Measured cold times are in DESIGN 12a.
QUICK_KEEP = {
 "C01": ["c01_size_width_%d" % i for i in range(1, 9)] + ["c15_roundtrip_default", "c01w_binary_len_126_128", "c09_id_bytes", "c09_end_tag_w0_c2", "c16w_uint_w0_c4",
         "c16w_int_w0_c4", "c09_uint_w2_c4", "c09_binary_w1", "c16w_float", "c09_width_dispatch"],
 "C02": ["c16_arr_to_u64", "c16_arr_to_i64", "c16_arr_to_f64", "c16w_float"] + ["c16w_uint_w0_c%d" % c for c in (1, 2, 4, 8)] + ["c16w_int_w0_c%d" % c for c in (1, 2, 4, 8)]
        + ["c11_validate_p1_c1", "c11_validate_p2_c2", "c11_validate_p3_c3", "c11_vtree_root_a_uk", "c11_vtree_root_a_b_uuu", "doc_f4_f8"],
 "C03": ["hdr_flat_full", "hdr_flat_trunc", "doc_u3_u1", "doc_i2_i0", "doc_f4_f8", "doc_s1_b3", "doc_b0_u8", "cut_u3_b2_at4", "cut_u3_b2_at5", "hdr_tree_first_l3", "hdr_tree_first_void", "edr_refill_cap16_len16", "edr_refill_cap16_len5"],
 "C04": ["hdr_flat_trunc", "hdr_flat_full", "edr_refill_cap16_len16", "edr_first_fill_cap16_len8", "edr_refill_cap8_len16", "edr_first_fill_cap0_len1", "edr_refill_cap16_len5",
         "edr_refill_cap16_len16_at_6_8", "edr_refill_cap8_len16_at_4_8", "chunk_u2_b1_1x7", "chunk_u2_b1_2_3_2", "chunk_u2_b1_cap0", "chunk_u2_b1_cap1", "chunk_u2_b1_pause",
         "slice_u2_b1_cap0", "rn_eof_noclose_2", "hdr_refill_buf4_per1_cap16", "hdr_refill_buf8_per1_cap24"],
 "C05": ["hdr_flat_full", "hdr_flat_trunc", "edr_refill_cap16_len16", "edr_first_fill_cap16_len8", "edr_refill_cap8_len16", "edr_first_fill_cap0_len1", "edr_source_error",
         "c16_arr_to_i64", "c14_recover_at_end", "c14_recover_arbitrary_3", "doc_f3_u1", "doc_i2_i0", "slice_u2_b1_cap0", "cut_u3_b2_at2"],
 "C09": ["c09_id_bytes", "c09_end_tag_w0_c2", "c09_end_tag_w1_c2", "c09_end_tag_w8_c2", "c09_uint_w2_c1", "c09_uint_w2_c2", "c09_uint_w2_c4", "c09_uint_w2_c8", "c09_int_w2_c2", "c09_int_w2_c4",
         "c09_float_w3", "c09_binary_w0", "c09_binary_w1", "c09_binary_w4", "c09_binary_w8", "c09_utf8_w2", "c09_width_dispatch", "c09_unknown_size_equivalence",
         "c09_flush_short_1", "c09_flush_short_3", "c09_flush_short_2_of_5", "c19_binary_width1_overflow", "c19_utf8_width1_len127", "c11_writer_unknown_start_misplaced"],
 "C12": ["hdr_flat_trunc", "cut_u3_b2_at2", "cut_u3_b2_at3", "cut_u3_b2_at4", "cut_u3_b2_at5", "cut_u3_b2_at8", "hdr_refill_buf4_per1_cap16", "hdr_refill_buf8_per1_cap24"],
 "C14": ["c14_recover_junk1", "c14_recover_at_end", "hdr_flat_full"],  # c14_recover_arbitrary_3 (~510 s) runs in C05's quick tier and in C14's thorough tier: keeps C14 cold well below 900 s
 "C16": ["c16_arr_to_u64", "c16_arr_to_i64", "c16_arr_to_f64", "c16w_float"] + ["c16w_uint_w0_c%d" % c for c in (1, 2, 4, 8)] + ["c16w_int_w0_c%d" % c for c in (1, 2, 4, 8)]
        + ["c09_uint_w2_c4", "doc_i2_i0", "doc_f4_f8"],
}
for _p, _keep in QUICK_KEEP.items():
    for _h in HARNESSES:
        if _p in _h["props"] and _h["tier"] == "quick" and _h["name"] not in _keep:
            _h.setdefault("thorough_for", []).append(_p)
    for _n in _keep:
        assert _n in BY_NAME and _p in BY_NAME[_n]["props"] and BY_NAME[_n]["tier"] == "quick", (_p, _n)

# realistic memory budgets for the gate (peak RSS measured in the build round, rounded up)
for _h in HARNESSES:
    n = _h["name"]
    if n.startswith(("c15_", "c18_", "c01_size", "c16_arr", "c11_validate", "c11_vtree", "c07_", "c19_", "c10_", "c09_flush", "c09_binary", "c09_utf8", "c09_id", "c09_float", "c16w_float", "c09_unknown", "c01w_")):
        _h["mem_gb"] = 4
    elif n.startswith(("edr_", "hdr_contain", "rn_", "hdr_tree_first")):
        _h["mem_gb"] = 5
    elif n.startswith(("c16w_int", "c09_int", "c16w_uint", "c09_uint")):
        _h["mem_gb"] = 10 if "int" in n and "uint" not in n else 6
    elif n.startswith(("doc_", "cut_", "chunk", "slice_", "c09_end_tag", "c09_width", "c14_")):
        _h["mem_gb"] = 8
    elif n.startswith(("hdr_flat", "hdr_tree_chain", "hdr_tree_known")):
        _h["mem_gb"] = 12
