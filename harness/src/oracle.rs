//! Reference oracles (trusted base T4). Each is short, loop-free or with a constant
//! trip count, and derived from the property text / RFC 8794 — never from the
//! implementation. They are self-tested natively (`cargo test` in this crate, run by
//! `setup_cmd`) on the repository's own test vectors.

/// Length announced by the first byte of a vint: 1 + number of leading zero bits.
/// `None` for 0x00 (no marker in the first byte: length > 8, unsupported).
pub fn ref_vint_len(b0: u8) -> Option<usize> {
    if b0 == 0 {
        None
    } else {
        Some(b0.leading_zeros() as usize + 1)
    }
}

/// Outcome of decoding a vint at the start of `b[..n]`.
#[derive(Copy, Clone, Debug, PartialEq, Eq)]
pub enum RefVint {
    /// not enough bytes (empty slice or a proper prefix of a vint)
    NeedMore,
    /// first byte is zero
    Bad,
    /// (value with marker removed, length)
    Val(u64, usize),
}

/// Big-endian value of the first `len` bytes of `b` (len <= 8).
pub fn ref_be_u64(b: &[u8], len: usize) -> u64 {
    let mut v: u64 = 0;
    let mut i = 0;
    while i < 8 {
        if i < len {
            v = (v << 8) | (b[i] as u64);
        }
        i += 1;
    }
    v
}

pub fn ref_vint_decode(b: &[u8], n: usize) -> RefVint {
    if n == 0 {
        return RefVint::NeedMore;
    }
    match ref_vint_len(b[0]) {
        None => RefVint::Bad,
        Some(l) => {
            if l > n {
                RefVint::NeedMore
            } else {
                let raw = ref_be_u64(b, l);
                // clear the marker bit: bit 7*l of an l-byte big-endian number
                RefVint::Val(raw & !(1u64 << (7 * l)), l)
            }
        }
    }
}

/// Smallest L in 1..=8 with v < 2^(7L); None when v >= 2^56.
pub fn ref_vint_min_len(v: u64) -> Option<usize> {
    if v < 1 << 7 {
        Some(1)
    } else if v < 1 << 14 {
        Some(2)
    } else if v < 1 << 21 {
        Some(3)
    } else if v < 1 << 28 {
        Some(4)
    } else if v < 1 << 35 {
        Some(5)
    } else if v < 1 << 42 {
        Some(6)
    } else if v < 1 << 49 {
        Some(7)
    } else if v < 1 << 56 {
        Some(8)
    } else {
        None
    }
}

/// The L-byte vint of v (v < 2^(7L), 1 <= L <= 8), right-aligned in 8 bytes:
/// result[8-L..] are the encoding.
pub fn ref_vint_fixed(v: u64, l: usize) -> [u8; 8] {
    (v | (1u64 << (7 * l))).to_be_bytes()
}

/// RFC 8794: an Element ID is well formed when its byte length (as a big-endian
/// number without leading zero bytes) equals the length announced by its marker.
pub fn ref_id_wellformed(v: u64) -> bool {
    if v == 0 {
        return false;
    }
    let nbytes = 8 - (v.leading_zeros() as usize) / 8; // 1..=8
    let first = (v >> (8 * (nbytes - 1))) as u8; // non-zero
    (first.leading_zeros() as usize) + 1 == nbytes
}

/// Two's-complement big-endian value of b[..n], sign-extended from n bytes; n == 0 -> 0.
pub fn ref_be_i64_sext(b: &[u8], n: usize) -> i64 {
    if n == 0 {
        return 0;
    }
    let raw = ref_be_u64(b, n);
    if n == 8 {
        raw as i64
    } else if b[0] & 0x80 != 0 {
        (raw | (!0u64 << (8 * n))) as i64
    } else {
        raw as i64
    }
}

/// Minimal width in {1,2,4,8} that holds the unsigned value.
pub fn ref_uint_width(v: u64) -> usize {
    if v <= 0xFF {
        1
    } else if v <= 0xFFFF {
        2
    } else if v <= 0xFFFF_FFFF {
        4
    } else {
        8
    }
}

/// Minimal width in {1,2,4,8} that holds the signed value in two's complement.
pub fn ref_int_width(v: i64) -> usize {
    if v >= -(1 << 7) && v < (1 << 7) {
        1
    } else if v >= -(1 << 15) && v < (1 << 15) {
        2
    } else if v >= -(1i64 << 31) && v < (1i64 << 31) {
        4
    } else {
        8
    }
}

/// Signed vint: value range of width l (1..=8), *strict* on both sides as the
/// property states: -2^(7l-1) < v < 2^(7l-1).
pub fn ref_svint_fits_strict(v: i64, l: usize) -> bool {
    let lim = 1i64 << (7 * l - 1);
    v > -lim && v < lim
}

/// Full two's-complement range of 7l bits: -2^(7l-1) <= v < 2^(7l-1).
pub fn ref_svint_fits_incl(v: i64, l: usize) -> bool {
    let lim = 1i64 << (7 * l - 1);
    v >= -lim && v < lim
}

/// Element Data Size semantics (RFC 8794 §6.2): all value bits one => unknown.
#[derive(Copy, Clone, Debug, PartialEq, Eq)]
pub enum RefSize {
    Known(u64),
    Unknown,
}

pub fn ref_size(value: u64, len: usize) -> RefSize {
    if value == (1u64 << (7 * len)) - 1 {
        RefSize::Unknown
    } else {
        RefSize::Known(value)
    }
}

/// Element header at the start of `w[..avail]`.
#[derive(Copy, Clone, Debug, PartialEq, Eq)]
pub enum RefHeader {
    /// fewer bytes available than id + size field need; `id` is Some iff the id bytes
    /// are complete
    NeedMore { id: Option<u64> },
    /// the id's first byte or the size field's first byte is 0x00
    BadId,
    BadSize { id: u64 },
    Ok { id: u64, id_len: usize, size: RefSize, size_len: usize },
}

pub fn ref_header(w: &[u8], avail: usize) -> RefHeader {
    if avail == 0 {
        return RefHeader::NeedMore { id: None };
    }
    let id_len = match ref_vint_len(w[0]) {
        None => return RefHeader::BadId,
        Some(l) => l,
    };
    if id_len > avail {
        return RefHeader::NeedMore { id: None };
    }
    let id = ref_be_u64(w, id_len); // ids keep their marker
    if avail == id_len {
        return RefHeader::NeedMore { id: Some(id) };
    }
    match ref_vint_decode(&w[id_len..], avail - id_len) {
        RefVint::NeedMore => RefHeader::NeedMore { id: Some(id) },
        RefVint::Bad => RefHeader::BadSize { id },
        RefVint::Val(v, l) => RefHeader::Ok { id, id_len, size: ref_size(v, l), size_len: l },
    }
}

#[cfg(test)]
mod tests {
    use super::*;

    #[test]
    fn vint_vectors_from_repo_tests() {
        // tools.rs tests: read_vint_sixteen, _one_twenty_seven, _two_hundred, _for_ebml_tag, _very_long, _overflow
        assert_eq!(ref_vint_decode(&[144], 1), RefVint::Val(16, 1));
        assert_eq!(ref_vint_decode(&[255], 1), RefVint::Val(127, 1));
        assert_eq!(ref_vint_decode(&[64, 200], 2), RefVint::Val(200, 2));
        assert_eq!(ref_vint_decode(&[0x1a, 0x45, 0xdf, 0xa3], 4), RefVint::Val(0x0a45dfa3, 4));
        assert_eq!(ref_vint_decode(&[1, 0, 0, 0, 0, 0, 0, 1], 8), RefVint::Val(1, 8));
        assert_eq!(ref_vint_decode(&[1, 0, 0, 0], 4), RefVint::NeedMore);
        assert_eq!(ref_vint_decode(&[0, 1], 2), RefVint::Bad);
        assert_eq!(ref_vint_decode(&[], 0), RefVint::NeedMore);
        // write_vint_* tests
        assert_eq!(ref_vint_min_len(16), Some(1));
        assert_eq!(&ref_vint_fixed(16, 1)[7..], &[144]);
        assert_eq!(&ref_vint_fixed(127, 1)[7..], &[255]);
        assert_eq!(ref_vint_min_len(200), Some(2));
        assert_eq!(&ref_vint_fixed(200, 2)[6..], &[64, 200]);
        assert_eq!(&ref_vint_fixed(1, 8)[..], &[1, 0, 0, 0, 0, 0, 0, 1]);
        assert_eq!(ref_vint_min_len(1 << 56), None);
        assert_eq!(ref_vint_min_len((1 << 56) - 1), Some(8));
    }

    #[test]
    fn wellformed_ids_from_repo_tests() {
        for v in [0x1F43B675u64, 0xA0, 0x75A1, 0xEE, 0x5854, 0x3E83BB, 0x3CB923, 0x1a45dfa3, 0x80, 0xFF, 0x4000, 0x7FFF,
                  0x0100_0000_0000_0000, 0x01FF_FFFF_FFFF_FFFF] {
            assert!(ref_id_wellformed(v), "{v:x}");
        }
        for v in [0u64, 1, 1234, 0x11, 0x7a, 0xfa4c, 0x1a5d, 0x8000, 0x0200_0000_0000_0000, u64::MAX, 1 << 63, 0x100, 0x3FFF_FF00_00] {
            assert!(!ref_id_wellformed(v), "{v:x}");
        }
    }

    #[test]
    fn ints() {
        assert_eq!(ref_be_i64_sext(&[], 0), 0);
        assert_eq!(ref_be_i64_sext(&[0xFF], 1), -1);
        assert_eq!(ref_be_i64_sext(&[0x80, 0], 2), -32768);
        assert_eq!(ref_be_i64_sext(&[4, 0], 2), 1024);
        assert_eq!(ref_be_i64_sext(&[0x80, 0, 0, 0, 0, 0, 0, 0], 8), i64::MIN);
        assert_eq!(ref_be_u64(&[16, 0], 2), 4096);
        assert_eq!(ref_uint_width(255), 1);
        assert_eq!(ref_uint_width(256), 2);
        assert_eq!(ref_uint_width(1 << 32), 8);
        assert_eq!(ref_int_width(-128), 1);
        assert_eq!(ref_int_width(128), 2);
        assert_eq!(ref_int_width(-129), 2);
        assert_eq!(ref_int_width(i64::MIN), 8);
    }

    #[test]
    fn signed_vint_ranges() {
        // doc examples of SignedVint: -33 -> [0xDF], 200 -> [0x40,0xC8], -200 -> [0x7F,0x38], -1 -> [0xFF]
        assert!(ref_svint_fits_strict(-33, 1));
        assert!(!ref_svint_fits_strict(200, 1));
        assert!(ref_svint_fits_strict(200, 2));
        assert!(!ref_svint_fits_strict(-64, 1));
        assert!(ref_svint_fits_incl(-64, 1));
        assert!(!ref_svint_fits_incl(64, 1));
    }

    #[test]
    fn headers() {
        // tag_writer test: 0x1a45dfa3 with size 0
        assert_eq!(
            ref_header(&[0x1a, 0x45, 0xdf, 0xa3, 0x80], 5),
            RefHeader::Ok { id: 0x1a45dfa3, id_len: 4, size: RefSize::Known(0), size_len: 1 }
        );
        assert_eq!(ref_header(&[0x1a, 0x45, 0xdf, 0xa3, 0x80], 4), RefHeader::NeedMore { id: Some(0x1a45dfa3) });
        assert_eq!(ref_header(&[0x1a, 0x45, 0xdf, 0xa3, 0x80], 3), RefHeader::NeedMore { id: None });
        assert_eq!(ref_header(&[0x83, 0xFF], 2), RefHeader::Ok { id: 0x83, id_len: 1, size: RefSize::Unknown, size_len: 1 });
        assert_eq!(ref_header(&[0x83, 0x40, 0x7F], 3), RefHeader::Ok { id: 0x83, id_len: 1, size: RefSize::Known(127), size_len: 2 });
        assert_eq!(ref_header(&[0x83, 0x40, 0x7F], 2), RefHeader::NeedMore { id: Some(0x83) });
        assert_eq!(ref_header(&[0x83, 0x00, 0x7F], 3), RefHeader::BadSize { id: 0x83 });
        assert_eq!(ref_header(&[0x00, 0x81], 2), RefHeader::BadId);
    }
}

// ---------------------------------------------------------------------------
// Hierarchy oracles (C06, C07, C11)
use ebml_iterable::specs::PathPart;

/// Declared path read as a pattern over the chain of open masters (outermost first):
/// `Id(x)` matches exactly one master x; `Global(min,max)` matches k arbitrary masters,
/// min <= k <= max (absent min = 0, absent max = unbounded); the whole chain must be
/// consumed. Chains and paths of up to 4 entries.
pub fn ref_match(chain: &[u64], path: &[PathPart]) -> bool {
    const N: usize = 6;
    let p = path.len();
    let c = chain.len();
    if p >= N || c >= N {
        return false;
    }
    // m[i][j]: path[i..] matches chain[j..]
    let mut m = [[false; N]; N];
    let mut i = p + 1;
    while i > 0 {
        i -= 1;
        let mut j = c + 1;
        while j > 0 {
            j -= 1;
            m[i][j] = if i == p {
                j == c
            } else {
                match path[i] {
                    PathPart::Id(x) => j < c && chain[j] == x && m[i + 1][j + 1],
                    PathPart::Global((mn, mx)) => {
                        let lo = mn.unwrap_or(0);
                        let mut ok = false;
                        let mut k = 0;
                        while k <= c - j {
                            let within = (k as u64) >= lo && match mx { Some(h) => (k as u64) <= h, None => true };
                            if within && m[i + 1][j + k] {
                                ok = true;
                            }
                            k += 1;
                        }
                        ok
                    }
                }
            };
        }
    }
    m[0][0]
}

#[cfg(test)]
mod hier_tests {
    use super::*;
    use PathPart::{Global, Id};
    #[test]
    fn match_vectors() {
        // exact paths
        assert!(ref_match(&[], &[]));
        assert!(!ref_match(&[1], &[]));
        assert!(ref_match(&[1, 2], &[Id(1), Id(2)]));
        assert!(!ref_match(&[1], &[Id(1), Id(2)]));
        assert!(!ref_match(&[1, 2, 3], &[Id(1), Id(2)]));
        // repo test `validate_global_hierarchies`: Crc32 = (1-), Void = (-)
        assert!(!ref_match(&[], &[Global((Some(1), None))]));
        assert!(ref_match(&[9], &[Global((Some(1), None))]));
        assert!(ref_match(&[9, 8, 7], &[Global((Some(1), None))]));
        assert!(ref_match(&[], &[Global((None, None))]));
        assert!(ref_match(&[5, 6], &[Global((None, None))]));
        // bounds
        assert!(ref_match(&[1, 9], &[Id(1), Global((Some(1), Some(2)))]));
        assert!(ref_match(&[1, 9, 9], &[Id(1), Global((Some(1), Some(2)))]));
        assert!(!ref_match(&[1, 9, 9, 9], &[Id(1), Global((Some(1), Some(2)))]));
        assert!(!ref_match(&[1], &[Id(1), Global((Some(1), Some(2)))]));
        // intermediate placeholder
        assert!(ref_match(&[1, 2], &[Id(1), Global((None, None)), Id(2)]));
        assert!(ref_match(&[1, 7, 2], &[Id(1), Global((None, None)), Id(2)]));
        assert!(!ref_match(&[2], &[Global((Some(1), None)), Id(2)]));
        assert!(ref_match(&[7, 2], &[Global((Some(1), None)), Id(2)]));
        assert!(ref_match(&[7, 2], &[Global((None, Some(1))), Id(2)]));
        assert!(ref_match(&[2, 2], &[Global((None, None)), Id(2)]));
        assert!(!ref_match(&[7, 7, 2], &[Global((None, Some(1))), Id(2)]));
    }
}

/// Reference for spec `Tree` (see specs.rs): declared parent of each element.
pub fn tree_parent(x: u64) -> Option<u64> {
    match x {
        0x82 | 0x88 | 0x85 => Some(0x81), // A, A2, L1 under Root
        0x83 | 0x86 => Some(0x82),        // B, L2 under A
        0x87 | 0x89 => Some(0x83),        // L3, C under B
        _ => None,
    }
}
pub fn tree_declared(x: u64) -> bool {
    matches!(x, 0x81..=0x89 | 0xEC | 0xBF)
}
pub fn tree_global(x: u64) -> bool {
    x == 0xEC || x == 0xBF
}
/// C07: element `e` directly ends unknown-size master `m` iff e is a sibling of m, a new
/// instance of one of m's ancestors, or a root element; globals and undeclared ids never do.
pub fn tree_direct_close(m: u64, e: u64) -> bool {
    if !tree_declared(e) || tree_global(e) {
        return false;
    }
    let root = tree_parent(e).is_none();
    let sibling = tree_parent(e) == tree_parent(m);
    let p1 = tree_parent(m);
    let p2 = p1.and_then(tree_parent);
    let p3 = p2.and_then(tree_parent);
    let ancestor = p1 == Some(e) || p2 == Some(e) || p3 == Some(e);
    root || sibling || ancestor
}
/// Length of the chain that remains after `e` closed open unknown-size masters: the
/// masters closed are the innermost run of unknown-size masters from the outermost
/// one that `e` directly ends (an unknown-size master directly enclosing a closed one
/// ... closes with it, C07).
pub fn tree_chain_after_closing(ids: &[u64], unknown: &[bool], n: usize, e: u64) -> usize {
    let mut cut = n;
    let mut j = n;
    while j > 0 {
        j -= 1;
        if !unknown[j] {
            break;
        }
        if tree_direct_close(ids[j], e) {
            cut = j;
        }
    }
    cut
}
