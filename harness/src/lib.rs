//! Kani proof harnesses over the real ebml-iterable crate (path dependency on /repo).
//! `oracle` is plain Rust (natively tested); everything under `proofs` exists only
//! under `cfg(kani)`.
#![cfg_attr(kani, feature(core_io_internals, core_io))]
#![allow(clippy::all)]

pub mod oracle;
pub mod specs;
pub mod derived;

#[cfg(kani)]
mod proofs;
