//! C18 corpus: declarations expanded by the REAL macros at harness build time, each
//! written for both front-ends (`#[ebml_specification]` and `easy_ebml!`), plus the
//! declared table as plain data for the oracle.
#![allow(dead_code)]
use ebml_iterable::specs::{easy_ebml, ebml_specification, PathPart, TagDataType};
use PathPart::{Global, Id};
use TagDataType::*;

pub type Row = (u64, TagDataType, &'static [PathPart]);

/// rows every derived specification must contain besides its own
pub const IMPLICIT: [Row; 2] = [(0xbf, Binary, &[Global((Some(1), None))]), (0xec, Binary, &[Global((None, None))])];

// ---- D1: all six data types, depth-2 paths, 1..=3-byte ids (the repo's own test declaration)
pub mod d1 {
    use super::*;
    #[ebml_specification]
    #[derive(Clone, Debug, PartialEq)]
    pub enum A {
        #[id(0x01)] #[data_type(TagDataType::Master)] Root,
        #[id(0x02)] #[data_type(TagDataType::Master)] #[doc_path(Root)] Parent,
        #[id(0x100)] #[data_type(TagDataType::UnsignedInt)] #[doc_path(Root/Parent)] Count,
        #[id(0x200)] #[data_type(TagDataType::Binary)] #[doc_path(Root/Parent)] Data,
        #[id(0x201)] #[data_type(TagDataType::Utf8)] #[doc_path(Root/Parent)] Name,
        #[id(0x102)] #[data_type(TagDataType::Float)] #[doc_path(Root/Parent)] Amount,
        #[id(0x101)] #[data_type(TagDataType::Integer)] #[doc_path(Root/Parent)] Ident,
    }
    easy_ebml! {
        #[derive(Clone, Debug, PartialEq)]
        pub enum E {
            Root: Master = 0x01,
            Root/Parent: Master = 0x02,
            Root/Parent/Count: UnsignedInt = 0x100,
            Root/Parent/Data: Binary = 0x200,
            Root/Parent/Name: Utf8 = 0x201,
            Root/Parent/Amount: Float = 0x102,
            Root/Parent/Ident: Integer = 0x101,
        }
    }
    pub const ROWS: [Row; 7] = [
        (0x01, Master, &[]), (0x02, Master, &[Id(0x01)]), (0x100, UnsignedInt, &[Id(0x01), Id(0x02)]), (0x200, Binary, &[Id(0x01), Id(0x02)]),
        (0x201, Utf8, &[Id(0x01), Id(0x02)]), (0x102, Float, &[Id(0x01), Id(0x02)]), (0x101, Integer, &[Id(0x01), Id(0x02)]),
    ];
}

// ---- D2: two roots, depth-3 paths, trailing global placeholders in every bound form, 4-byte ids
pub mod d2 {
    use super::*;
    #[ebml_specification]
    #[derive(Clone, Debug, PartialEq)]
    pub enum A {
        #[id(0x1a45dfa3)] #[data_type(TagDataType::Master)] Ebml,
        #[id(0x18538067)] #[data_type(TagDataType::Master)] Segment,
        #[id(0x1f43b675)] #[data_type(TagDataType::Master)] #[doc_path(Segment)] Cluster,
        #[id(0xa0)] #[data_type(TagDataType::Master)] #[doc_path(Segment/Cluster)] Group,
        #[id(0xa1)] #[data_type(TagDataType::Binary)] #[doc_path(Segment/Cluster/Group)] Block,
        #[id(0x4286)] #[data_type(TagDataType::UnsignedInt)] #[doc_path(Ebml)] Version,
        #[id(0x4d80)] #[data_type(TagDataType::Utf8)] #[doc_path(Segment/(-))] AnyDepth,
        #[id(0x4d81)] #[data_type(TagDataType::Integer)] #[doc_path(Segment/(1-2))] Bounded,
        #[id(0x4d82)] #[data_type(TagDataType::Float)] #[doc_path(Segment/(-3))] MaxOnly,
        #[id(0x4d83)] #[data_type(TagDataType::Binary)] #[doc_path((2-))] MinOnlyRoot,
    }
    easy_ebml! {
        #[derive(Clone, Debug, PartialEq)]
        pub enum E {
            Ebml: Master = 0x1a45dfa3,
            Segment: Master = 0x18538067,
            Segment/Cluster: Master = 0x1f43b675,
            Segment/Cluster/Group: Master = 0xa0,
            Segment/Cluster/Group/Block: Binary = 0xa1,
            Ebml/Version: UnsignedInt = 0x4286,
            Segment/(-)/AnyDepth: Utf8 = 0x4d80,
            Segment/(1-2)/Bounded: Integer = 0x4d81,
            Segment/(-3)/MaxOnly: Float = 0x4d82,
            (2-)/MinOnlyRoot: Binary = 0x4d83,
        }
    }
    pub const ROWS: [Row; 10] = [
        (0x1a45dfa3, Master, &[]), (0x18538067, Master, &[]), (0x1f43b675, Master, &[Id(0x18538067)]),
        (0xa0, Master, &[Id(0x18538067), Id(0x1f43b675)]), (0xa1, Binary, &[Id(0x18538067), Id(0x1f43b675), Id(0xa0)]),
        (0x4286, UnsignedInt, &[Id(0x1a45dfa3)]),
        (0x4d80, Utf8, &[Id(0x18538067), Global((None, None))]), (0x4d81, Integer, &[Id(0x18538067), Global((Some(1), Some(2)))]),
        (0x4d82, Float, &[Id(0x18538067), Global((None, Some(3)))]), (0x4d83, Binary, &[Global((Some(2), None))]),
    ];
}

// ---- D3: intermediate global placeholders, leaves directly at root, 8-byte id
pub mod d3 {
    use super::*;
    #[ebml_specification]
    #[derive(Clone, Debug, PartialEq)]
    pub enum A {
        #[id(0x81)] #[data_type(TagDataType::Master)] Top,
        #[id(0x82)] #[data_type(TagDataType::Master)] #[doc_path(Top/(-))] Mid,
        #[id(0x83)] #[data_type(TagDataType::UnsignedInt)] #[doc_path(Top/(-)/Mid)] Leaf,
        #[id(0x84)] #[data_type(TagDataType::Master)] #[doc_path((1-))] Wrapped,
        #[id(0x85)] #[data_type(TagDataType::Binary)] #[doc_path((1-)/Wrapped)] Inner,
        #[id(0x86)] #[data_type(TagDataType::Float)] RootLeaf,
        #[id(0x0123456789abcdef)] #[data_type(TagDataType::Integer)] #[doc_path(Top)] Wide,
    }
    easy_ebml! {
        #[derive(Clone, Debug, PartialEq)]
        pub enum E {
            Top: Master = 0x81,
            Top/(-)/Mid: Master = 0x82,
            Top/(-)/Mid/Leaf: UnsignedInt = 0x83,
            (1-)/Wrapped: Master = 0x84,
            (1-)/Wrapped/Inner: Binary = 0x85,
            RootLeaf: Float = 0x86,
            Top/Wide: Integer = 0x0123456789abcdef,
        }
    }
    pub const ROWS: [Row; 7] = [
        (0x81, Master, &[]), (0x82, Master, &[Id(0x81), Global((None, None))]), (0x83, UnsignedInt, &[Id(0x81), Global((None, None)), Id(0x82)]),
        (0x84, Master, &[Global((Some(1), None))]), (0x85, Binary, &[Global((Some(1), None)), Id(0x84)]),
        (0x86, Float, &[]), (0x0123456789abcdef, Integer, &[Id(0x81)]),
    ];
}

// ---- D4: a single variant (smallest declaration)
pub mod d4 {
    use super::*;
    #[ebml_specification]
    #[derive(Clone, Debug, PartialEq)]
    pub enum A {
        #[id(0x80)] #[data_type(TagDataType::Utf8)] Only,
    }
    easy_ebml! {
        #[derive(Clone, Debug, PartialEq)]
        pub enum E {
            Only: Utf8 = 0x80,
        }
    }
    pub const ROWS: [Row; 1] = [(0x80, Utf8, &[])];
}
