//! C16 — fixed-width payload decoders (leaf part). The writer's encoders are in c16w.rs (hooks).
use crate::oracle::*;
use ebml_iterable::tools;

/// arr_to_u64 on every slice of up to 9 bytes.
#[kani::proof]
#[kani::unwind(11)]
fn c16_arr_to_u64() {
    let b: [u8; 9] = kani::any();
    let n: usize = kani::any();
    kani::assume(n <= 9);
    kani::cover!(n == 0, "empty slice reached");
    kani::cover!(n == 8 && b[0] == 0xFF, "8-byte value with top bit reached");
    kani::cover!(n == 9, "9-byte slice reached");
    let r = tools::arr_to_u64(&b[..n]);
    if n > 8 {
        assert!(r.is_err(), "C16/C02a: unsigned decoder rejects slices longer than 8");
        core::mem::forget(r);
    } else {
        assert!(matches!(r, Ok(v) if v == ref_be_u64(&b, n)), "C16/C02a: unsigned decoder == big-endian value (empty = 0)");
    }
}

/// arr_to_i64 on every slice of up to 9 bytes.
#[kani::proof]
#[kani::unwind(11)]
fn c16_arr_to_i64() {
    let b: [u8; 9] = kani::any();
    let n: usize = kani::any();
    kani::assume(n <= 9);
    kani::cover!(n == 0, "empty slice reached");
    kani::cover!(n == 8 && b[0] >= 0x80, "8-byte negative reached");
    kani::cover!(n == 3 && b[0] >= 0x80, "3-byte negative reached");
    kani::cover!(n == 9, "9-byte slice reached");
    let r = tools::arr_to_i64(&b[..n]);
    if n > 8 {
        assert!(r.is_err(), "C16/C02a: signed decoder rejects slices longer than 8");
        core::mem::forget(r);
    } else {
        assert!(matches!(r, Ok(v) if v == ref_be_i64_sext(&b, n)), "C16/C02a: signed decoder == sign-extended two's complement (empty = 0)");
    }
}

/// arr_to_f64: IEEE value for lengths 4 and 8, error otherwise.
#[kani::proof]
#[kani::unwind(11)]
fn c16_arr_to_f64() {
    let b: [u8; 9] = kani::any();
    let n: usize = kani::any();
    kani::assume(n <= 9);
    kani::cover!(n == 4, "4-byte float reached");
    kani::cover!(n == 8, "8-byte float reached");
    kani::cover!(n == 0, "empty slice reached");
    let r = tools::arr_to_f64(&b[..n]);
    if n == 8 {
        let bits = ref_be_u64(&b, 8);
        assert!(matches!(r, Ok(v) if v.to_bits() == bits), "C16/C02a: 8-byte float is bit-exact");
    } else if n == 4 {
        let f = f32::from_bits(ref_be_u64(&b, 4) as u32);
        match r {
            Ok(v) => {
                assert!(v.is_nan() == f.is_nan(), "C16/C02a: 4-byte float NaN-ness preserved");
                if !f.is_nan() {
                    // f32 -> f64 is exact: converting back gives the same f32 bits
                    assert!((v as f32).to_bits() == f.to_bits(), "C16/C02a: 4-byte float value preserved exactly");
                    assert!(v.to_bits() == (f as f64).to_bits(), "C16/C02a: 4-byte float widened as IEEE-754 conversion");
                }
            }
            Err(_) => assert!(false, "C16/C02a: 4-byte float must decode"),
        }
    } else {
        assert!(r.is_err(), "C16/C02a: float decoder rejects lengths other than 4 and 8");
        core::mem::forget(r);
    }
}
