//! [U] `read_next` from seeded states that do NOT need a tag to be parsed (the part of
//! `read_next` that is tractable): end of input with masters open, and known-size
//! masters whose range is exhausted. Decides the End-emission clauses of C06/C12/C03
//! for these steps: every open master receives its End, innermost first, each End
//! reporting the master's start offset; with EOF closing disabled nothing is emitted.
use super::stubs;
use crate::specs::*;
use ebml_iterable::verif_hooks::{EBMLSize, ProcessingTag};
use ebml_iterable::TagIterator;

fn seeded(depth: usize, sizes: [EBMLSize; 3], starts: [usize; 3], cur_abs: usize) -> TagIterator<&'static [u8], TreeTag> {
    let ids = [tree::ROOT, tree::A, tree::B];
    let src: &[u8] = &[];
    let mut it: TagIterator<&[u8], TreeTag> = TagIterator::with_capacity(src, &[], 16);
    // everything buffered has been consumed: cursor == fill
    it.verif_set_buffer(Box::new([0u8; 16]), 4, 4, Some(cur_abs - 4));
    let mut stack = Vec::with_capacity(3);
    let mut i = 0;
    while i < 3 {
        if i < depth {
            stack.push(ProcessingTag { tag: TreeTag::end(ids[i]), size: sizes[i], tag_start: starts[i], data_start: starts[i] + 2 });
        }
        i += 1;
    }
    it.verif_set_stack(stack, true);
    // pre-size the emission queue: growing a VecDeque of large Result items inside the proof costs tens of GB
    it.verif_queue_reserve(4);
    it
}

fn pop_end(it: &mut TagIterator<&'static [u8], TreeTag>, id: u64, start: usize) {
    match it.verif_queue_pop() {
        Some(Ok((t, off))) => {
            assert!(t.id == id && t.is_end(), "C06: at end of input every open master receives its End (never a Start), innermost first");
            assert!(off == start, "C03: a master's End reports the same offset as the master's start");
        }
        _ => assert!(false, "C06: an End is emitted for every open master"),
    }
}

/// End of input with DEPTH masters open, sizes symbolic (unknown, or known and not yet exhausted).
fn eof_closes<const DEPTH: usize>(emit: bool) {
    let starts: [usize; 3] = kani::any();
    let cur: usize = kani::any();
    kani::assume(cur >= 64 && cur < (1usize << 40));
    kani::assume(starts[2] < cur && cur - starts[2] >= 2 && starts[0] < starts[1] && starts[1] < starts[2] && starts[1] - starts[0] >= 2 && starts[2] - starts[1] >= 2);
    let known: [bool; 3] = kani::any();
    let sz: [usize; 3] = kani::any();
    let mut sizes = [EBMLSize::Unknown; 3];
    let mut i = 0;
    while i < 3 {
        if known[i] {
            kani::assume(sz[i] < (1usize << 40) && starts[i] + 2 + sz[i] > cur); // truncated: range not exhausted
            sizes[i] = EBMLSize::Known(sz[i]);
        }
        i += 1;
    }
    let mut it = seeded(DEPTH, sizes, starts, cur);
    it.emit_master_end_when_eof(emit);
    kani::cover!(known[0] && !known[1], "mixed known/unknown sizes reached");
    it.verif_read_next();
    if emit {
        assert!(it.verif_queue_len() == DEPTH, "C06: exactly one End per open master at end of input");
        let ids = [tree::ROOT, tree::A, tree::B];
        let mut k = DEPTH;
        while k > 0 {
            k -= 1;
            pop_end(&mut it, ids[k], starts[k]);
        }
        assert!(it.verif_stack().is_empty(), "C06: no master stays open after end of input");
    } else {
        assert!(it.verif_queue_len() == 0, "C04: with end-of-stream closing disabled nothing is emitted at (temporary) end of input");
        assert!(it.verif_stack().len() == DEPTH, "C04: with end-of-stream closing disabled the open masters stay open");
    }
    core::mem::forget(it);
}

/// Known-size masters whose range is exhausted at the cursor are closed (with everything inside them).
fn size_closes<const DEPTH: usize>() {
    let starts: [usize; 3] = kani::any();
    let cur: usize = kani::any();
    kani::assume(cur >= 64 && cur < (1usize << 40));
    kani::assume(starts[2] < cur && cur - starts[2] >= 2 && starts[0] < starts[1] && starts[1] < starts[2] && starts[1] - starts[0] >= 2 && starts[2] - starts[1] >= 2);
    // which masters are exhausted exactly here: a suffix of the known-size chain ends at `cur`
    let first_ended: usize = kani::any();
    kani::assume(first_ended < DEPTH);
    let inner_unknown: bool = kani::any();
    let mut sizes = [EBMLSize::Unknown; 3];
    let mut i = 0;
    while i < 3 {
        if i < first_ended {
            sizes[i] = EBMLSize::Known(cur - (starts[i] + 2) + 5); // still 5 bytes to go
        } else if i == first_ended || !inner_unknown {
            sizes[i] = EBMLSize::Known(cur - (starts[i] + 2)); // ends exactly at the cursor
        }
        i += 1;
    }
    let mut it = seeded(DEPTH, sizes, starts, cur);
    it.emit_master_end_when_eof(false); // isolate the close-by-size phase
    kani::cover!(first_ended == 0 && DEPTH == 3, "outermost of three exhausted reached");
    kani::cover!(first_ended + 1 == DEPTH, "only the innermost exhausted reached");
    it.verif_read_next();
    let ids = [tree::ROOT, tree::A, tree::B];
    assert!(it.verif_queue_len() == DEPTH - first_ended, "C06: a known-size master's End is emitted exactly when its range is exhausted, together with everything still open inside it");
    let mut k = DEPTH;
    while k > first_ended {
        k -= 1;
        pop_end(&mut it, ids[k], starts[k]);
    }
    assert!(it.verif_stack().len() == first_ended, "C06: masters with bytes left stay open");
    core::mem::forget(it);
}

macro_rules! rn_h {
    ($name:ident, $body:expr) => {
        #[kani::proof]
        #[kani::unwind(10)]
        #[kani::stub(<core::io::CustomOwner as core::ops::Drop>::drop, stubs::noop_custom_owner_drop)]
        #[kani::stub(std::hash::RandomState::new, stubs::fixed_random_state)]
        fn $name() {
            $body
        }
    };
}
rn_h!(rn_eof_closes_1, eof_closes::<1>(true));
rn_h!(rn_eof_closes_2, eof_closes::<2>(true));
rn_h!(rn_eof_closes_3, eof_closes::<3>(true));
rn_h!(rn_eof_noclose_2, eof_closes::<2>(false));
rn_h!(rn_size_closes_2, size_closes::<2>());
rn_h!(rn_size_closes_3, size_closes::<3>());
