//! C01 — (S) size-field composition: the exact functions the writer and the reader
//! call on an element's size, for every size, without materialising payloads.
//! The writer-side obligations that use hooks are in c09.rs / c16w.rs.
use ebml_iterable::tools::{self, Vint};

/// Reader's interpretation of a size field (RFC 8794 §6.2: all value bits one = unknown).
fn reader_size(bytes: &[u8]) -> Option<Option<u64>> {
    match tools::read_vint(bytes) {
        Ok(Some((v, l))) => {
            if l == bytes.len() {
                if v == (1u64 << (7 * l)) - 1 { Some(None) } else { Some(Some(v)) }
            } else {
                None
            }
        }
        _ => None,
    }
}

macro_rules! size_width {
    ($name:ident, $L:literal) => {
        /// explicit width L: a size is either rejected or read back as Known(s) — it is never
        /// silently turned into the reserved unknown-size pattern *by the vint codec alone*;
        /// the writer must therefore reject s == 2^(7L)-1 itself (checked in c09.rs).
        #[kani::proof]
        #[kani::unwind(10)]
        fn $name() {
            let s: u64 = kani::any();
            kani::cover!(s == (1u64 << (7 * $L)) - 2, "largest representable size reached");
            match s.as_vint_with_length::<$L>() {
                Err(_) => {}
                Ok(b) => {
                    let r = reader_size(&b);
                    if s == (1u64 << (7 * $L)) - 1 {
                        assert!(r == Some(None), "C01s: all-ones pattern reads as unknown size");
                    } else {
                        assert!(r == Some(Some(s)), "C01s: fixed-width size field reads back as Known(s)");
                    }
                }
            }
        }
    };
}
size_width!(c01_size_width_1, 1);
size_width!(c01_size_width_2, 2);
size_width!(c01_size_width_3, 3);
size_width!(c01_size_width_4, 4);
size_width!(c01_size_width_5, 5);
size_width!(c01_size_width_6, 6);
size_width!(c01_size_width_7, 7);
size_width!(c01_size_width_8, 8);
