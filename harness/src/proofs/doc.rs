//! [S] skeleton + symbolic slots through the PUBLIC API (`TagIterator::next`). The
//! structure (element types, payload lengths, cut position, read partition, buffer
//! capacity) is concrete and enumerated by the harness list; every payload byte is
//! symbolic. Master-free `Flat` documents of <= 3 calls (DESIGN §2).
//! Serves C03b (values/offsets/tiling), C05b/c (totality, fused), C12b (truncation),
//! C04c (chunking/capacity), C16 (decoders through the iterator).
use super::common::*;
use super::stubs;
use crate::oracle::*;
use crate::specs::*;
use ebml_iterable::TagIterator;
use std::io::Read;

#[derive(Copy, Clone, PartialEq)]
pub enum Ty {
    U,
    I,
    F,
    S,
    B,
}

impl Ty {
    fn id(self) -> u8 {
        match self {
            Ty::U => flat::U as u8,
            Ty::I => flat::I as u8,
            Ty::F => flat::F as u8,
            Ty::S => flat::S as u8,
            Ty::B => flat::B as u8,
        }
    }
}

pub const DOC: usize = 24;

/// Source delivering the document in the given chunk sizes (then whatever is left).
pub struct Chunked {
    pub data: [u8; DOC],
    pub len: usize,
    pub pos: usize,
    pub chunks: [usize; 6],
    pub call: usize,
}
impl Read for Chunked {
    fn read(&mut self, buf: &mut [u8]) -> std::io::Result<usize> {
        let mut n = if self.call < 6 { self.chunks[self.call] } else { DOC };
        self.call += 1;
        if n > buf.len() {
            n = buf.len();
        }
        if n > self.len - self.pos {
            n = self.len - self.pos;
        }
        let mut i = 0;
        while i < n {
            buf[i] = self.data[self.pos + i];
            i += 1;
        }
        self.pos += n;
        Ok(n)
    }
}

/// Checks one successfully emitted item against the reference decoding of its payload.
fn check_item(t: &FlatTag, ty: Ty, p: &[u8; 8], n: usize) {
    assert!(t.id == ty.id() as u64, "C03/C04/C16b: emitted item has the id found at its offset");
    match (ty, &t.val) {
        (Ty::U, Val::U(v)) => assert!(*v == ref_be_u64(p, n), "C03/C04/C16b: unsigned value is the big-endian decoding of exactly its payload bytes"),
        (Ty::I, Val::I(v)) => assert!(*v == ref_be_i64_sext(p, n), "C03/C04/C16b: signed value is the sign-extended two's-complement decoding of its payload bytes"),
        (Ty::F, Val::F(v)) => {
            if n == 8 {
                assert!(v.to_bits() == ref_be_u64(p, 8), "C03/C04/C16b: 8-byte float is bit-exact");
            } else {
                let f = f32::from_bits(ref_be_u64(p, 4) as u32);
                assert!(v.is_nan() == f.is_nan() && (f.is_nan() || v.to_bits() == (f as f64).to_bits()), "C03/C04/C16b: 4-byte float is the IEEE-754 widening");
            }
        }
        (Ty::S, Val::S(s)) => {
            assert!(s.len() == n, "C03/C04/C16b: utf8 value has exactly the payload length");
            let b = s.as_bytes();
            let mut i = 0;
            while i < 8 {
                if i < n {
                    assert!(b[i] == p[i], "C03/C04/C16b: utf8 value is exactly the payload bytes");
                }
                i += 1;
            }
        }
        (Ty::B, Val::B(b)) => {
            assert!(b.len() == n, "C03/C04/C16b: binary value has exactly the payload length");
            let mut i = 0;
            while i < 8 {
                if i < n {
                    assert!(b[i] == p[i], "C03/C04/C16b: binary value is exactly the payload bytes");
                }
                i += 1;
            }
        }
        _ => assert!(false, "C03/C04/C16b: emitted item has the value kind of its declared type"),
    }
}

/// Two-element document `[id1, 0x80|n1, p1.., id2, 0x80|n2, p2..]` cut after `cut`
/// bytes, read through `chunks` (None = from a slice) with buffer capacity `cap`.
pub fn run_doc2(t1: Ty, n1: usize, t2: Ty, n2: usize, cut: usize, chunks: Option<[usize; 6]>, cap: usize, eof_end: bool) {
    let mut p1: [u8; 8] = kani::any();
    let mut p2: [u8; 8] = kani::any();
    // utf8 payloads are concrete: UTF-8 validation of symbolic bytes does not leave symex
    if t1 == Ty::S {
        p1 = *b"abcdefgh";
    }
    if t2 == Ty::S {
        p2 = *b"ABCDEFGH";
    }
    let mut doc = [0u8; DOC];
    doc[0] = t1.id();
    doc[1] = 0x80 | n1 as u8;
    let mut i = 0;
    while i < n1 { doc[2 + i] = p1[i]; i += 1; }
    let s2 = 2 + n1;
    doc[s2] = t2.id();
    doc[s2 + 1] = 0x80 | n2 as u8;
    i = 0;
    while i < n2 { doc[s2 + 2 + i] = p2[i]; i += 1; }
    let total = s2 + 2 + n2;
    let len = if cut < total { cut } else { total };
    kani::cover!(p1[0] != 0 || p2[0] != 0 || (n1 == 0 && n2 == 0), "non-zero payload byte reached");

    match chunks {
        None => {
            let src: &[u8] = Box::leak(Box::new(doc));
            let mut it: TagIterator<&[u8], FlatTag> = TagIterator::with_capacity(&src[..len], &[], cap);
            it.emit_master_end_when_eof(eof_end);
            drive(&mut it, [(t1, n1, p1, 0), (t2, n2, p2, s2)], len);
            core::mem::forget(it);
        }
        Some(c) => {
            let src = Chunked { data: doc, len, pos: 0, chunks: c, call: 0 };
            let mut it: TagIterator<Chunked, FlatTag> = TagIterator::with_capacity(src, &[], cap);
            it.emit_master_end_when_eof(eof_end);
            drive(&mut it, [(t1, n1, p1, 0), (t2, n2, p2, s2)], len);
            core::mem::forget(it);
        }
    }
}

fn float_len_ok(ty: Ty, n: usize) -> bool {
    ty != Ty::F || n == 4 || n == 8
}

fn drive<R: Read>(it: &mut TagIterator<R, FlatTag>, els: [(Ty, usize, [u8; 8], usize); 2], len: usize) {
    let mut k = 0;
    while k < 2 {
        let (ty, n, p, start) = els[k];
        let r = it.next();
        if len >= start + 2 + n {
            // completely contained
            if float_len_ok(ty, n) {
                match &r {
                    Some(Ok(t)) => {
                        check_item(t, ty, &p, n);
                        assert!(it.last_emitted_tag_offset() == start, "C03/C04/C16b: the item reports the offset where its header starts; the next item starts where the previous payload ended");
                    }
                    _ => assert!(false, "C12/C04b: a completely contained element is emitted"),
                }
            } else {
                match &r {
                    Some(Err(e)) => assert!(!matches!(kind_of(e), ErrKind::Eof { .. } | ErrKind::Read), "C05/C04b: a float of length other than 4/8 is a data error, not an end of file"),
                    _ => assert!(false, "C05/C04b: a float of length other than 4/8 is reported as an error, not decoded and not a panic"),
                }
                core::mem::forget(r);
                return;
            }
        } else if len == start {
            // cut on a tag boundary: normal termination, and the iterator stays finished
            assert!(r.is_none(), "C12/C04b: a cut on a tag boundary ends the iteration normally");
            let r2 = it.next();
            assert!(r2.is_none(), "C05/C04c: after None the iterator keeps returning None");
            core::mem::forget(r2);
            core::mem::forget(r);
            return;
        } else {
            // cut inside this element
            match &r {
                Some(Err(e)) => {
                    let k = kind_of(e);
                    assert!(!matches!(k, ErrKind::InvalidTagId { .. } | ErrKind::InvalidTagData { .. } | ErrKind::Hierarchy { .. } | ErrKind::Oversized { .. } | ErrKind::InvalidTagSize { .. } | ErrKind::CorruptedTagData { .. }),
                        "C12/C04b: a merely truncated element is never reported as corruption");
                    let want_id = if len >= start + 1 { Some(ty.id() as u64) } else { None };
                    let want_size = if len >= start + 2 { Some(n) } else { None };
                    assert!(matches!(k, ErrKind::Eof { tag_start, tag_id, tag_size, .. } if tag_start == start && tag_id == want_id && tag_size == want_size),
                        "C12/C04b: EOF error carries the incomplete tag's offset, its id iff the id bytes are complete, its size iff the header is complete");
                    if let ebml_iterable::error::TagIteratorError::UnexpectedEOF { partial_data, .. } = e {
                        if len >= start + 2 {
                            let avail = len - (start + 2);
                            match partial_data {
                                Some(d) => {
                                    assert!(d.len() == avail, "C12/C04b: partial data are exactly the payload bytes that were available");
                                    let mut i = 0;
                                    while i < 8 {
                                        if i < avail {
                                            assert!(d[i] == p[i], "C12/C04b: partial data bytes equal the available payload bytes");
                                        }
                                        i += 1;
                                    }
                                }
                                None => assert!(avail == 0, "C12/C04b: partial data present once the header is complete and payload bytes were available"),
                            }
                        }
                    }
                }
                _ => assert!(false, "C12/C04b: a cut inside an element yields an unexpected-end-of-file error"),
            }
            core::mem::forget(r);
            return;
        }
        core::mem::forget(r);
        k += 1;
    }
    // both elements emitted: the stream is exhausted
    let r = it.next();
    assert!(r.is_none(), "C03/C04/C16b: nothing is emitted after the last element");
    let r2 = it.next();
    assert!(r2.is_none(), "C05/C04c: after None the iterator keeps returning None");
    core::mem::forget(r);
    core::mem::forget(r2);
}

macro_rules! doc_h {
    ($name:ident, $t1:ident, $n1:literal, $t2:ident, $n2:literal, $cut:expr, $chunks:expr, $cap:expr, $eof:expr) => {
        doc_h!($name, $t1, $n1, $t2, $n2, $cut, $chunks, $cap, $eof, 10);
    };
    // growing a tiny buffer to 16 bytes runs Vec::resize's fill loop 16 times: unwind 18
    ($name:ident, $t1:ident, $n1:literal, $t2:ident, $n2:literal, $cut:expr, $chunks:expr, $cap:expr, $eof:expr, $unwind:literal) => {
        #[kani::proof]
        #[kani::unwind($unwind)]
        #[kani::stub(<core::io::CustomOwner as core::ops::Drop>::drop, stubs::noop_custom_owner_drop)]
        #[kani::stub(std::hash::RandomState::new, stubs::fixed_random_state)]
        fn $name() {
            run_doc2(Ty::$t1, $n1, Ty::$t2, $n2, $cut, $chunks, $cap, $eof)
        }
    };
}

// ---- C03b / C05b: complete documents from a slice (type x size family)
doc_h!(doc_u3_u1, U, 3, U, 1, 99, None, 32, true);
doc_h!(doc_i2_i0, I, 2, I, 0, 99, None, 32, true);
doc_h!(doc_f4_f8, F, 4, F, 8, 99, None, 32, true);
doc_h!(doc_s1_b3, S, 1, B, 3, 99, None, 32, true);
doc_h!(doc_b0_u8, B, 0, U, 8, 99, None, 32, true);
doc_h!(doc_u0_i8, U, 0, I, 8, 99, None, 32, true);
doc_h!(doc_i1_s0, I, 1, S, 0, 99, None, 32, true);
doc_h!(doc_f3_u1, F, 3, U, 1, 99, None, 32, true);
doc_h!(doc_i7_f0, I, 7, F, 0, 99, None, 32, true);
doc_h!(doc_b8_b1, B, 8, B, 1, 99, None, 32, true);
// ---- C12b: every cut position of [U3][B2] (total 9 bytes), capacity 32
doc_h!(cut_u3_b2_at0, U, 3, B, 2, 0, None, 32, true);
doc_h!(cut_u3_b2_at1, U, 3, B, 2, 1, None, 32, true);
doc_h!(cut_u3_b2_at2, U, 3, B, 2, 2, None, 32, true);
doc_h!(cut_u3_b2_at3, U, 3, B, 2, 3, None, 32, true);
doc_h!(cut_u3_b2_at4, U, 3, B, 2, 4, None, 32, true);
doc_h!(cut_u3_b2_at5, U, 3, B, 2, 5, None, 32, true);
doc_h!(cut_u3_b2_at6, U, 3, B, 2, 6, None, 32, true);
doc_h!(cut_u3_b2_at7, U, 3, B, 2, 7, None, 32, true);
doc_h!(cut_u3_b2_at8, U, 3, B, 2, 8, None, 32, true);
// ---- C04c: read partitions and capacities of [U2][B1] (7 bytes)
doc_h!(chunk_u2_b1_1x7, U, 2, B, 1, 99, Some([1, 1, 1, 1, 1, 1]), 16, true);
doc_h!(chunk_u2_b1_2_3_2, U, 2, B, 1, 99, Some([2, 3, 2, 9, 9, 9]), 16, true);
doc_h!(chunk_u2_b1_4_1_2, U, 2, B, 1, 99, Some([4, 1, 2, 9, 9, 9]), 16, true);
doc_h!(chunk_u2_b1_cap0, U, 2, B, 1, 99, Some([3, 9, 9, 9, 9, 9]), 0, true, 18);
doc_h!(chunk_u2_b1_cap1, U, 2, B, 1, 99, Some([9, 9, 9, 9, 9, 9]), 1, true, 18);
doc_h!(chunk_u2_b1_cap5, U, 2, B, 1, 99, Some([2, 2, 9, 9, 9, 9]), 5, true, 18);
doc_h!(chunk_u2_b1_pause, U, 2, B, 1, 99, Some([4, 0, 3, 9, 9, 9]), 16, false);
doc_h!(chunkcut_u2_b1_at5_1s, U, 2, B, 1, 5, Some([1, 1, 1, 1, 1, 1]), 16, true);
doc_h!(slice_u2_b1_cap0, U, 2, B, 1, 99, None, 0, true, 18);

/// A 16-byte element that exactly fills the (capacity-16) buffer, followed by ONE dangling
/// byte (the id of a truncated element): after the first element the buffer is fully
/// consumed, so the end-of-stream probe decides between "one more byte" and "clean end".
#[kani::proof]
#[kani::unwind(18)]
#[kani::stub(<core::io::CustomOwner as core::ops::Drop>::drop, stubs::noop_custom_owner_drop)]
#[kani::stub(std::hash::RandomState::new, stubs::fixed_random_state)]
fn cut_b14_then_one_byte() {
    // only the last payload byte is symbolic (the cost is in the buffer boundary, not in the payload)
    let mut p = [0x55u8; 14];
    p[13] = kani::any();
    let mut doc = [0u8; 17];
    doc[0] = flat::B as u8;
    doc[1] = 0x80 | 14;
    let mut i = 0;
    while i < 14 {
        doc[2 + i] = p[i];
        i += 1;
    }
    doc[16] = flat::U as u8;
    let src: &[u8] = Box::leak(Box::new(doc));
    let mut it: TagIterator<&[u8], FlatTag> = TagIterator::with_capacity(src, &[], 16);
    kani::cover!(p[13] != 0, "non-zero last payload byte reached");
    let r = it.next();
    match &r {
        Some(Ok(t)) => {
            assert!(t.id == flat::B && matches!(t.val, Val::B(b) if b.len() == 14 && b[0] == p[0] && b[13] == p[13]), "C03/C04/C16b: binary value is exactly the payload bytes");
            assert!(it.last_emitted_tag_offset() == 0, "C03/C04/C16b: first item at offset 0");
        }
        _ => assert!(false, "C12/C04b: a completely contained element is emitted"),
    }
    core::mem::forget(r);
    let r = it.next();
    match &r {
        Some(Err(e)) => assert!(matches!(kind_of(e), ErrKind::Eof { tag_start: 16, tag_id: Some(id), tag_size: None, .. } if id == flat::U),
            "C12/C04b: a single dangling byte after a tag boundary is an unexpected end of file at that byte, id present, no size"),
        _ => assert!(false, "C12/C04b: a cut one byte into the next element is an error, not a normal end (and not chunking-dependent: C04)"),
    }
    core::mem::forget(r);
    core::mem::forget(it);
}
