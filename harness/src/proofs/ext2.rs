//! Extension round: header parsing ACROSS a refill. `hdr_flat_full` never enters the refill path and
//! `hdr_flat_trunc` has the source at end of file, so neither sees a header whose first bytes are buffered and
//! whose remaining bytes still have to come from the source in small reads. Here the 16-byte window is split:
//! `BUF` bytes are buffered, the rest arrives `PER` bytes per read. Whatever the split, the header result must be the
//! reference decoding of the 16 bytes (C04: independent of chunking; C12: never "truncated" when the bytes exist).
//! (Written after seed C12-s3: dropping `ensure_data_read(16)` so that only the id probe's 8 bytes are guaranteed.)
use super::common::*;
use super::stubs;
use crate::oracle::*;
use crate::specs::*;
use ebml_iterable::verif_hooks::EBMLSize;
use ebml_iterable::TagIterator;
use std::io::Read;

const WIN: usize = 16;

struct Drip {
    data: [u8; WIN],
    pos: usize,
    per: usize,
}
impl Read for Drip {
    fn read(&mut self, buf: &mut [u8]) -> std::io::Result<usize> {
        let mut n = self.per;
        if n > buf.len() {
            n = buf.len();
        }
        if n > WIN - self.pos {
            n = WIN - self.pos;
        }
        let mut i = 0;
        while i < n {
            buf[i] = self.data[self.pos + i];
            i += 1;
        }
        self.pos += n;
        Ok(n)
    }
}

fn hdr_refill<const BUF: usize, const PER: usize, const CAP: usize>() {
    let win: [u8; WIN] = kani::any();
    let mut b = [0u8; CAP];
    let mut i = 0;
    while i < BUF {
        b[i] = win[i];
        i += 1;
    }
    let src = Drip { data: win, pos: BUF, per: PER };
    let mut it: TagIterator<Drip, FlatTag> = TagIterator::with_capacity(src, &[], 0);
    it.set_max_allowable_tag_size(None);
    it.verif_set_buffer(Box::new(b), BUF, 0, Some(0));
    let want = ref_header(&win, WIN);
    kani::cover!(matches!(want, RefHeader::Ok { id_len: 1, size_len: 8, .. }), "9-byte header (1-byte id, 8-byte size field) reached");
    kani::cover!(matches!(want, RefHeader::Ok { id_len: 4, size_len: 8, .. }), "12-byte header reached");
    let r = it.verif_peek_valid_tag_header();
    assert!(it.verif_current_offset() == 0, "C03/C04: peeking does not move the read position");
    if let Err(e) = &r {
        assert!(!matches!(kind_of(e), ErrKind::Eof { .. } | ErrKind::Read), "C04/C12: all 16 bytes exist in the stream: a header is never reported as truncated because of how the reads were chunked");
    }
    match want {
        RefHeader::Ok { id, id_len, size, size_len } => {
            if let Ok((rid, rty, rsize, rhl)) = &r {
                assert!(*rid == id && *rhl == id_len + size_len && *rty == Flat::ty(id), "C03/C04: accepted header is the reference header of the stream bytes");
                match size {
                    RefSize::Known(s) => assert!(*rsize == EBMLSize::Known(s as usize), "C04: declared size independent of chunking"),
                    RefSize::Unknown => assert!(*rsize == EBMLSize::Unknown, "C04: unknown size independent of chunking"),
                }
            } else {
                // strict mode, no limit: only an undeclared id or a numeric element with a size > 8 may be refused
                let ty = Flat::ty(id);
                let numeric = matches!(ty, Some(ebml_iterable::specs::TagDataType::UnsignedInt) | Some(ebml_iterable::specs::TagDataType::Integer) | Some(ebml_iterable::specs::TagDataType::Float));
                assert!(ty.is_none() || (numeric && !matches!(size, RefSize::Known(s) if s <= 8)), "C04/C13: a complete, declared header is not rejected");
            }
        }
        _ => assert!(r.is_err(), "C05: a header with a zero first id/size byte is never accepted in strict mode"),
    }
    // the stream content behind the position is intact: buffered window == stream bytes
    let f = it.verif_fill();
    let c = it.verif_cursor();
    let bb = it.verif_buffer();
    let mut k = 0;
    while k < WIN {
        if c + k < f {
            assert!(bb[c + k] == win[k], "C04: buffered bytes are the stream bytes, in order");
        }
        k += 1;
    }
    core::mem::forget(r);
    core::mem::forget(it);
}

macro_rules! refill_h {
    ($name:ident, $buf:literal, $per:literal, $cap:literal) => {
        #[kani::proof]
        #[kani::unwind(18)]
        #[kani::stub(<core::io::CustomOwner as core::ops::Drop>::drop, stubs::noop_custom_owner_drop)]
        #[kani::stub(std::hash::RandomState::new, stubs::fixed_random_state)]
        fn $name() { hdr_refill::<$buf, $per, $cap>() }
    };
}
refill_h!(hdr_refill_buf4_per1_cap16, 4, 1, 16);
refill_h!(hdr_refill_buf1_per3_cap16, 1, 3, 16);
refill_h!(hdr_refill_buf8_per1_cap24, 8, 1, 24);
refill_h!(hdr_refill_buf0_per5_cap16, 0, 5, 16);
