//! [U] `ensure_data_read` over a scripted reader: the buffer is a faithful, only
//! growing window of the stream whatever the read sizes are (C04b); a source error
//! surfaces as ReadError carrying the original error (C05d).
use super::common::*;
use super::stubs;
use crate::specs::*;
use ebml_iterable::TagIterator;
use std::io::Read;

const STREAM: usize = 24;
const CALLS: usize = 3;

/// A source that delivers `counts[k]` bytes on its k-th call (0 = temporary end of
/// file), and fails with OS error 5 on call `fail_at`.
pub struct Script {
    pub data: [u8; STREAM],
    pub pos: usize,
    pub counts: [usize; CALLS],
    pub call: usize,
    pub fail_at: usize,
    pub zero_seen: bool,
}

impl Read for Script {
    fn read(&mut self, buf: &mut [u8]) -> std::io::Result<usize> {
        if self.call == self.fail_at {
            self.call += 1;
            return Err(std::io::Error::from_raw_os_error(5));
        }
        let want = if self.call < CALLS { self.counts[self.call] } else { 0 };
        self.call += 1;
        let mut n = want;
        if n > buf.len() {
            n = buf.len();
        }
        if n > STREAM - self.pos {
            n = STREAM - self.pos;
        }
        let mut i = 0;
        while i < n {
            buf[i] = self.data[self.pos + i];
            i += 1;
        }
        self.pos += n;
        if n == 0 && !buf.is_empty() {
            // a genuine "no data now": not the artefact of being handed an empty buffer
            self.zero_seen = true;
        }
        Ok(n)
    }
}

fn edr_body(first_fill: bool, cap: usize, len: usize) {
    edr_body_at(first_fill, cap, len, None)
}

/// `fixed`: concrete (cursor, fill) instead of symbolic ones (keeps every allocation size concrete).
fn edr_body_at(first_fill: bool, cap: usize, len: usize, fixed: Option<(usize, usize)>) {
    let stream: [u8; STREAM] = kani::any();
    let counts: [usize; CALLS] = kani::any();
    kani::assume(counts[0] <= 8 && counts[1] <= 8 && counts[2] <= 8);
    let stale: [u8; 16] = kani::any();
    // concrete values must be real constants (an `assume` does not let symex fold them)
    let (cursor, fill): (usize, usize) = match fixed {
        Some(cf) => cf,
        None => (kani::any(), kani::any()),
    };
    let base: usize = kani::any();
    kani::assume(base < (1usize << 40));
    if first_fill {
        kani::assume(fill == 0 && cursor == 0 && base == 0);
    } else {
        kani::assume(cursor <= fill && fill <= 8 && fill <= cap);

    }
    // buffer: stream prefix below the fill level, arbitrary stale bytes above
    let mut buf = vec![0u8; cap];
    let mut i = 0;
    while i < cap {
        buf[i] = if i < fill { stream[i] } else { stale[i % 16] };
        i += 1;
    }
    let script = Script { data: stream, pos: fill, counts, call: 0, fail_at: usize::MAX, zero_seen: false };
    let mut it: TagIterator<Script, FlatTag> = TagIterator::with_capacity(script, &[], 0);
    it.verif_set_buffer(buf.into_boxed_slice(), fill, cursor, if first_fill { None } else { Some(base) });

    let abs_cur = base + cursor;
    let abs_fill = base + fill;
    kani::cover!(counts[0] == 0, "temporary EOF on first read");
    kani::cover!(counts[0] == 1 && counts[1] == 1, "byte-wise delivery reached");

    let r = it.verif_ensure_data_read(len);

    let off = it.verif_offset().unwrap_or(0);
    let ncur = it.verif_cursor();
    let nfill = it.verif_fill();
    assert!(off + ncur == abs_cur, "C04/C05b: the read position is unchanged by refilling");
    assert!(ncur <= nfill && nfill <= it.verif_buffer().len(), "C04/C05b: cursor <= fill <= allocation afterwards");
    assert!(off + nfill >= abs_fill, "C04/C05b: buffered data is only extended");
    assert!(it.verif_buffer().len() <= if cap > len { cap } else { len }, "C17b: a refill never allocates more than max(current allocation, requested length)");
    assert!(off + nfill == base + it.get_ref().pos, "C04/C05b: every byte the source delivered is in the buffer, none twice");
    // logical view equals the stream
    let a: usize = kani::any();
    if a >= abs_cur && a < off + nfill {
        // (a guarded assertion, not an assume: the window may be empty)
        assert!(it.verif_buffer()[a - off] == stream[a - base], "C04/C05b: buffered window equals the stream at every absolute position");
    }
    match &r {
        Ok(true) => {
            assert!(ncur + len <= nfill, "C04/C05b: Ok(true) means the requested bytes are buffered");
            kani::cover!(len == 1 || it.get_ref().call == 3, "three reads needed reached");
        }
        Ok(false) => {
            assert!(ncur + len > nfill, "C04/C05b: Ok(false) only when the bytes are not there");
            assert!(it.get_ref().zero_seen, "C04/C05b: Ok(false) only after the source reported end of file (never because the buffer is full or after a short read)");
        }
        Err(_) => assert!(false, "C04/C05b: no error without a source error"),
    }
    core::mem::forget(r);
    core::mem::forget(it);
}

#[kani::proof]
#[kani::unwind(26)]
#[kani::stub(<core::io::CustomOwner as core::ops::Drop>::drop, stubs::noop_custom_owner_drop)]
#[kani::stub(std::hash::RandomState::new, stubs::fixed_random_state)]
fn edr_refill_cap16_len16() {
    edr_body(false, 16, 16);
}

#[kani::proof]
#[kani::unwind(26)]
#[kani::stub(<core::io::CustomOwner as core::ops::Drop>::drop, stubs::noop_custom_owner_drop)]
#[kani::stub(std::hash::RandomState::new, stubs::fixed_random_state)]
fn edr_first_fill_cap16_len8() {
    edr_body(true, 16, 8);
}

#[kani::proof]
#[kani::unwind(26)]
#[kani::stub(<core::io::CustomOwner as core::ops::Drop>::drop, stubs::noop_custom_owner_drop)]
#[kani::stub(std::hash::RandomState::new, stubs::fixed_random_state)]
fn edr_refill_cap8_len16() {
    // allocation smaller than the request: the iterator must grow it, not report EOF
    edr_body(false, 8, 16);
}

#[kani::proof]
#[kani::unwind(26)]
#[kani::stub(<core::io::CustomOwner as core::ops::Drop>::drop, stubs::noop_custom_owner_drop)]
#[kani::stub(std::hash::RandomState::new, stubs::fixed_random_state)]
fn edr_first_fill_cap0_len1() {
    // requested capacity 0: the very first byte must still be read
    edr_body(true, 0, 1);
}

#[kani::proof]
#[kani::unwind(26)]
#[kani::stub(<core::io::CustomOwner as core::ops::Drop>::drop, stubs::noop_custom_owner_drop)]
#[kani::stub(std::hash::RandomState::new, stubs::fixed_random_state)]
fn edr_refill_cap16_len5() {
    // a payload-sized request
    edr_body(false, 16, 5);
}

#[kani::proof]
#[kani::unwind(26)]
#[kani::stub(<core::io::CustomOwner as core::ops::Drop>::drop, stubs::noop_custom_owner_drop)]
#[kani::stub(std::hash::RandomState::new, stubs::fixed_random_state)]
fn edr_refill_cap16_len16_at_6_8() {
    // concrete cursor 6 / fill 8: the request does not fit behind the cursor, but fits the allocation
    edr_body_at(false, 16, 16, Some((6, 8)))
}

#[kani::proof]
#[kani::unwind(26)]
#[kani::stub(<core::io::CustomOwner as core::ops::Drop>::drop, stubs::noop_custom_owner_drop)]
#[kani::stub(std::hash::RandomState::new, stubs::fixed_random_state)]
fn edr_refill_cap8_len16_at_4_8() {
    // concrete cursor 4 / fill 8 with an allocation that must grow
    edr_body_at(false, 8, 16, Some((4, 8)))
}

/// C05d: the only `source.read` call site. A failing source surfaces as ReadError
/// carrying the original error.
#[kani::proof]
#[kani::unwind(26)]
#[kani::stub(<core::io::CustomOwner as core::ops::Drop>::drop, stubs::noop_custom_owner_drop)]
#[kani::stub(std::hash::RandomState::new, stubs::fixed_random_state)]
fn edr_source_error() {
    let stream: [u8; STREAM] = kani::any();
    let counts: [usize; CALLS] = kani::any();
    kani::assume(counts[0] <= 3 && counts[1] <= 3 && counts[2] <= 3);
    let fail_at: usize = kani::any();
    kani::assume(fail_at < CALLS);
    let script = Script { data: stream, pos: 0, counts, call: 0, fail_at, zero_seen: false };
    let mut it: TagIterator<Script, FlatTag> = TagIterator::with_capacity(script, &[], 16);
    let r = it.verif_ensure_data_read(8);
    let reached = it.get_ref().call > fail_at;
    kani::cover!(reached && fail_at == 2, "failure on the third read reached");
    kani::cover!(!reached, "EOF before the failing call reached");
    match &r {
        Err(e) => {
            assert!(reached, "C05d: an error only if the failing call was made");
            match e {
                ebml_iterable::error::TagIteratorError::ReadError { source } => {
                    assert!(source.raw_os_error() == Some(5), "C05d: ReadError carries the original error");
                }
                _ => assert!(false, "C05d: a source failure surfaces as ReadError"),
            }
        }
        Ok(_) => assert!(!reached, "C05d: a source failure is never swallowed"),
    }
    core::mem::forget(r);
    core::mem::forget(it);
}
