//! [U] `peek_valid_tag_header` on spec `Tree` with a seeded stack of open masters
//! (symbolic known/unknown sizes and extents), symbolic header bytes, tolerance mask
//! and size limit. Decides per header: C11b (hierarchy acceptance == declared-path
//! pattern over the chain left after closing unknown-size masters), C06b (containment
//! in every known-size ancestor), C13 (each rejection has its own kind; tolerating a
//! class removes only that kind), C17a (limit), and the implied-ancestor clause of C06.
use super::common::*;
use super::stubs;
use crate::oracle::*;
use crate::specs::*;
use ebml_iterable::specs::TagDataType;
use ebml_iterable::verif_hooks::{EBMLSize, ProcessingTag};
use ebml_iterable::TagIterator;

const WIN: usize = 24;
const CUR: usize = 4;

/// valid chains of open masters over `Tree` (Inv_strict: every open master sits where its path allows)
fn chain(sel: u8) -> ([u64; 3], usize) {
    match sel {
        0 => ([0, 0, 0], 0),
        1 => ([tree::ROOT, 0, 0], 1),
        2 => ([tree::ROOT, tree::A, 0], 2),
        3 => ([tree::ROOT, tree::A, tree::B], 3),
        4 => ([tree::ROOT, tree::A2, 0], 2),
        _ => ([tree::ROOT2, 0, 0], 1),
    }
}

fn hdr_tree_body(sel: u8, all_known: bool, hier_tolerated: bool) {
    let mut win: [u8; WIN] = kani::any();
    // 1-byte id, 1- or 2-byte size field: keeps the header arithmetic small; the general
    // header shapes are decided on `Flat` (hdr_flat_*)
    kani::assume(win[CUR] >= 0x80);
    kani::assume(win[CUR + 1] >= 0x40);
    let base: usize = kani::any();
    kani::assume(base >= 64 && base < (1usize << 40));
    let mask_any: u8 = kani::any();
    kani::assume(mask_any < 8);
    // hier_tolerated: hierarchy problems are tolerated (the validator, whose work vectors make deep stacks
    // intractable, is not called), so containment / limit / id checks can be decided on deep stacks
    let mask = if hier_tolerated { mask_any | MASK_HIER } else { mask_any };
    let limit: Option<usize> = kani::any();
    let (ids, n) = chain(sel);
    let pos = base + CUR;

    // open masters: symbolic sizes (known/unknown) and extents consistent with Inv_stack:
    // starts strictly increasing and before the cursor, known ranges nested, cursor before every known end
    // all_known: every open master has a known size (then no master can be closed by the element
    // and the validator works on vectors of concrete length - an order of magnitude cheaper)
    let unknown: [bool; 3] = if all_known { [false; 3] } else { kani::any() };
    let ds: [usize; 3] = kani::any(); // data_start offsets relative to `base - 60`
    let sz: [usize; 3] = kani::any();
    let org = base - 60;
    kani::assume(ds[0] >= 2 && ds[0] < ds[1] && ds[1] < ds[2] && ds[2] <= 60 && ds[1] - ds[0] >= 2 && ds[2] - ds[1] >= 2);
    kani::assume(sz[0] < (1usize << 40) && sz[1] < (1usize << 40) && sz[2] < (1usize << 40));
    let mut stack = Vec::with_capacity(3);
    let mut i = 0;
    let mut min_end: usize = usize::MAX;
    while i < 3 {
        if i < n {
            let data_start = org + ds[i];
            if !unknown[i] {
                let end = data_start + sz[i];
                kani::assume(end > pos); // close-by-size phase already ran
                kani::assume(end <= min_end); // nested
                min_end = end;
            }
            stack.push(ProcessingTag {
                tag: TreeTag::end(ids[i]),
                size: if unknown[i] { EBMLSize::Unknown } else { EBMLSize::Known(sz[i]) },
                tag_start: data_start - 2,
                data_start,
            });
        }
        i += 1;
    }

    let src: &[u8] = &[];
    let mut it: TagIterator<&[u8], TreeTag> = TagIterator::with_capacity(src, &[], 0);
    apply_mask(&mut it, mask);
    it.set_max_allowable_tag_size(limit);
    it.verif_set_buffer(Box::new(win), WIN, CUR, Some(base));
    it.verif_set_stack(stack, true);

    let want = ref_header(&win[CUR..], WIN - CUR);
    let r = it.verif_peek_valid_tag_header();

    if let RefHeader::Ok { id, id_len, size, size_len } = want {
        let ty = Tree::ty(id);
        let hl = id_len + size_len;
        let keep = tree_chain_after_closing(&ids, &unknown, n, id);
        let path_ok = ref_match(&ids[..keep], Tree::path(id));
        let f_id = ty.is_none() && mask & MASK_ID == 0;
        let f_hier = ty.is_some() && mask & MASK_HIER == 0 && !path_ok;
        let f_over = mask & MASK_OVER == 0 && match size {
            RefSize::Known(s) => (s as usize) > min_end.wrapping_sub(pos + hl) && min_end != usize::MAX || (min_end != usize::MAX && pos + hl > min_end),
            RefSize::Unknown => false,
        };
        let f_limit = match (size, limit) {
            (RefSize::Known(s), Some(m)) => s > m as u64,
            _ => false,
        };
        let numeric = matches!(ty, Some(TagDataType::UnsignedInt) | Some(TagDataType::Integer) | Some(TagDataType::Float));
        let numeric_bad = numeric && !matches!(size, RefSize::Known(s) if s <= 8);
        kani::cover!(hier_tolerated || (f_hier && !f_id && !f_over && !f_limit), "pure hierarchy fault reached");
        kani::cover!(n == 0 || (f_over && !f_hier && !f_id && !f_limit), "pure oversize fault reached");
        kani::cover!(all_known || hier_tolerated || n == 0 || (keep < n && path_ok), "element accepted after closing unknown-size masters reached");
        kani::cover!(!f_id && !f_hier && !f_over && !f_limit && !numeric_bad && ty.is_some(), "accepted element reached");
        match &r {
            Ok((rid, rty, rsize, rhl)) => {
                assert!(*rid == id && *rhl == hl && *rty == ty, "C03/C06a: accepted header has the id, type and length found at the offset");
                assert!(match size { RefSize::Known(s) => *rsize == EBMLSize::Known(s as usize), RefSize::Unknown => *rsize == EBMLSize::Unknown }, "C03/C06a: accepted header carries the declared size");
                assert!(!f_id, "C13/C06/C11: unknown id accepted although unknown ids are not tolerated (raw tag in strict mode)");
                assert!(!f_hier, "C11/C06b: element accepted although the chain of open masters (after closing unknown-size ones) does not match its declared path");
                assert!(!f_over, "C06/C13b: element accepted although it overruns a known-size ancestor");
                assert!(!f_limit, "C13/C17a: declared size above the limit accepted (the limit stays in force under every tolerance setting)");
            }
            Err(e) => {
                let k = kind_of(e);
                let ok_id = f_id && matches!(k, ErrKind::InvalidTagId { tag_id, position } if tag_id == id && position == pos);
                let ok_hier = f_hier && matches!(k, ErrKind::Hierarchy { found_tag_id, .. } if found_tag_id == id);
                let ok_over = f_over && matches!(k, ErrKind::Oversized { tag_id, position, size: s } if tag_id == id && position == pos && RefSize::Known(s as u64) == size);
                let ok_limit = f_limit && matches!(k, ErrKind::InvalidTagSize { tag_id, position, size: s } if tag_id == id && position == pos && RefSize::Known(s as u64) == size);
                let ok_num = numeric_bad && matches!(k, ErrKind::InvalidTagData { tag_id, position } if tag_id == id && position == pos);
                assert!(ok_id || ok_hier || ok_over || ok_limit || ok_num,
                    "C13/C06/C11: an element is rejected only for a fault it has (unknown id / misplaced / overrunning an ancestor / above the limit), with that fault's own kind, the offending id and offset, and never for a tolerated class");
            }
        }
        // the stack is only read by a header check
        assert!(it.verif_stack().len() == n, "C06/C13b: checking a header does not open or close masters");
    }
    core::mem::forget(r);
    core::mem::forget(it);
}

macro_rules! tree_h {
    ($name:ident, $sel:literal) => {
        tree_h!($name, $sel, false);
    };
    ($name:ident, $sel:literal, $known:literal) => {
        tree_h!($name, $sel, $known, false);
    };
    ($name:ident, $sel:literal, $known:literal, $hier:literal) => {
        #[kani::proof]
        #[kani::unwind(10)]
        #[kani::stub(<core::io::CustomOwner as core::ops::Drop>::drop, stubs::noop_custom_owner_drop)]
        #[kani::stub(std::hash::RandomState::new, stubs::fixed_random_state)]
        fn $name() {
            hdr_tree_body($sel, $known, $hier)
        }
    };
}
tree_h!(hdr_tree_chain_empty, 0);
tree_h!(hdr_tree_chain_root, 1);
tree_h!(hdr_tree_chain_root_a, 2);
tree_h!(hdr_tree_chain_root_a_b, 3);
tree_h!(hdr_tree_chain_root_a2, 4);
tree_h!(hdr_tree_chain_root2, 5);
tree_h!(hdr_tree_known_root, 1, true);
tree_h!(hdr_tree_known_root_a, 2, true);
tree_h!(hdr_tree_known_root_a_b, 3, true);
tree_h!(hdr_tree_known_root_a2, 4, true);
tree_h!(hdr_tree_over_root_a, 2, false, true);
tree_h!(hdr_tree_over_root_a_b, 3, false, true);

/// Mid-document start: the first non-global element fixes the position; its declared
/// ancestors become open masters that will receive an End (never a Start). The id is
/// enumerated (one harness per element of `Tree`) so that the declared path is a
/// constant; the size byte and everything behind it are symbolic.
fn first_element<const ID: u64>() {
    let mut win: [u8; WIN] = kani::any();
    win[CUR] = ID as u8;
    kani::assume(win[CUR + 1] >= 0x80);
    let base: usize = kani::any();
    kani::assume(base < (1usize << 40));
    let src: &[u8] = &[];
    let mut it: TagIterator<&[u8], TreeTag> = TagIterator::with_capacity(src, &[], 0);
    it.verif_set_buffer(Box::new(win), WIN, CUR, Some(base));
    let id = ID;
    let r = it.verif_peek_valid_tag_header();
    kani::cover!(r.is_ok(), "accepted first element reached");
    if r.is_ok() {
        if tree_global(id) {
            assert!(!it.verif_doc_path_determined() && it.verif_stack().is_empty(), "C06: a global element does not fix the position in the document");
        } else {
            let path = Tree::path(id);
            assert!(it.verif_doc_path_determined(), "C06: the first non-global element fixes the position in the document");
            let st = it.verif_stack();
            assert!(st.len() == path.len(), "C06: the implied ancestors are exactly the declared path");
            let mut i = 0;
            while i < 3 {
                if i < st.len() {
                    assert!(matches!(path[i], ebml_iterable::specs::PathPart::Id(p) if p == st[i].tag.id), "C06: implied ancestor ids follow the declared path");
                    assert!(st[i].tag.is_end(), "C06: an implied ancestor is stored as the End it will receive (never a Start)");
                    assert!(st[i].tag_start == 0, "C03: implied ancestors report offset 0");
                }
                i += 1;
            }
        }
    }
    core::mem::forget(r);
    core::mem::forget(it);
}

macro_rules! first_h {
    ($name:ident, $id:expr) => {
        #[kani::proof]
        #[kani::unwind(10)]
        #[kani::stub(<core::io::CustomOwner as core::ops::Drop>::drop, stubs::noop_custom_owner_drop)]
        #[kani::stub(std::hash::RandomState::new, stubs::fixed_random_state)]
        fn $name() {
            first_element::<{ $id }>()
        }
    };
}
first_h!(hdr_tree_first_l3, tree::L3);
first_h!(hdr_tree_first_l2, tree::L2);
first_h!(hdr_tree_first_b, tree::B);
first_h!(hdr_tree_first_a2, tree::A2);
first_h!(hdr_tree_first_root, tree::ROOT);
first_h!(hdr_tree_first_void, tree::VOID);

/// Containment only, on deep stacks (C06b/C13): the element header is concrete except for
/// its 1-byte size; hierarchy and id problems are tolerated (so only the containment and
/// limit logic runs); the open masters' sizes are symbolic, their known/unknown pattern is
/// enumerated. The element must be rejected as oversized iff it overruns ANY known-size
/// ancestor, whatever lies between.
fn contain<const DEPTH: usize, const UNKNOWN_MASK: u8>() {
    let mut win = [0u8; WIN];
    let sb: u8 = kani::any();
    kani::assume(sb >= 0x80 && sb != 0xFF);
    win[CUR] = tree::VOID as u8;
    win[CUR + 1] = sb;
    let elem = 2 + (sb & 0x7F) as usize; // header + declared size
    let base = 1000usize;
    let pos = base + CUR;
    let ids = [tree::ROOT, tree::A, tree::B];
    let unknown = [UNKNOWN_MASK & 1 != 0, UNKNOWN_MASK & 2 != 0, UNKNOWN_MASK & 4 != 0];
    let sz: [usize; 3] = kani::any();
    let mut stack = Vec::with_capacity(3);
    let mut min_end = usize::MAX;
    let mut i = 0;
    while i < 3 {
        if i < DEPTH {
            let data_start = 900 + 10 * i;
            if !unknown[i] {
                kani::assume(sz[i] < 100_000);
                let end = data_start + sz[i];
                kani::assume(end > pos && end <= min_end); // not exhausted, nested
                min_end = end;
            }
            stack.push(ProcessingTag { tag: TreeTag::end(ids[i]), size: if unknown[i] { EBMLSize::Unknown } else { EBMLSize::Known(sz[i]) }, tag_start: data_start - 2, data_start });
        }
        i += 1;
    }
    let src: &[u8] = &[];
    let mut it: TagIterator<&[u8], TreeTag> = TagIterator::with_capacity(src, &[], 0);
    apply_mask(&mut it, MASK_ID | MASK_HIER);
    it.set_max_allowable_tag_size(None);
    it.verif_set_buffer(Box::new(win), WIN, CUR, Some(base));
    it.verif_set_stack(stack, true);
    let overruns = min_end != usize::MAX && pos + elem > min_end;
    kani::cover!(overruns, "overrunning element reached");
    kani::cover!(!overruns, "contained element reached");
    let r = it.verif_peek_valid_tag_header();
    match &r {
        Ok(_) => assert!(!overruns, "C06/C13b: element accepted although it overruns a known-size ancestor"),
        Err(e) => assert!(overruns && matches!(kind_of(e), ErrKind::Oversized { position, tag_id, .. } if position == pos && tag_id == tree::VOID),
            "C06/C13b: an element inside every known-size ancestor is not rejected; an overrunning one is reported as oversized child at its offset"),
    }
    core::mem::forget(r);
    core::mem::forget(it);
}
macro_rules! contain_h {
    ($name:ident, $d:literal, $m:literal) => {
        #[kani::proof]
        #[kani::unwind(10)]
        #[kani::stub(<core::io::CustomOwner as core::ops::Drop>::drop, stubs::noop_custom_owner_drop)]
        #[kani::stub(std::hash::RandomState::new, stubs::fixed_random_state)]
        fn $name() {
            contain::<$d, $m>()
        }
    };
}
contain_h!(hdr_contain_kk, 2, 0);
contain_h!(hdr_contain_ku, 2, 2);
contain_h!(hdr_contain_kkk, 3, 0);
contain_h!(hdr_contain_kuk, 3, 2);
contain_h!(hdr_contain_kku, 3, 4);
