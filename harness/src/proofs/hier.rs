//! Hierarchy decision logic: C11a (`validate_tag_path` == declared-path pattern
//! semantics), C07a (`is_ended_by` == sibling / ancestor / root, never by a global).
use crate::oracle::*;
use crate::specs::*;
use ebml_iterable::specs::PathPart;
use ebml_iterable::verif_hooks::{is_ended_by, validate_tag_path, EBMLSize};

fn any_bound() -> Option<u64> {
    let some: bool = kani::any();
    let v: u64 = kani::any();
    kani::assume(v <= 3);
    if some { Some(v) } else { None }
}

fn any_part() -> PathPart {
    let is_id: bool = kani::any();
    if is_id {
        let id: u64 = kani::any();
        kani::assume(id >= 0x81 && id <= 0x84);
        PathPart::Id(id)
    } else {
        let mn = any_bound();
        let mx = any_bound();
        kani::assume(mx != Some(0)); // rejected by the derive macro
        PathPart::Global((mn, mx))
    }
}

fn is_global(p: &PathPart) -> bool {
    matches!(p, PathPart::Global(_))
}

/// One symbolic declared path of PLEN parts (Id over a 4-id alphabet or Global(min,max)
/// with any bounds in ANY position, no two adjacent - what the macro admits) against
/// every chain of CLEN open known-size masters. PLEN and CLEN are enumerated 0..=3 by
/// the harness list so that the validator's work vectors have concrete sizes.
fn validate_onepath<const PLEN: usize, const CLEN: usize>() {
    let parts = [any_part(), any_part(), any_part(), PathPart::Id(0)];
    kani::assume(!(is_global(&parts[0]) && is_global(&parts[1])));
    kani::assume(!(is_global(&parts[1]) && is_global(&parts[2])));
    unsafe {
        ONEPATH = parts;
        ONEPATH_LEN = PLEN;
    }
    let chain: [u64; 3] = kani::any();
    kani::assume(chain[0] >= 0x81 && chain[0] <= 0x84 && chain[1] >= 0x81 && chain[1] <= 0x84 && chain[2] >= 0x81 && chain[2] <= 0x84);
    let want = ref_match(&chain[..CLEN], &parts[..PLEN]);
    // a matching (path, chain) pair exists for these lengths iff the chain can hold the path's named
    // parents (at least PLEN/2 of the parts are named, since placeholders are never adjacent)
    let matchable = if PLEN == 0 { CLEN == 0 } else { CLEN >= PLEN / 2 };
    kani::cover!(want || !matchable, "matching chain reached");
    kani::cover!(!want || (PLEN == 0 && CLEN == 0), "non-matching chain reached");
    kani::cover!(PLEN < 2 || !matchable || (want && is_global(&parts[0])), "match through a leading placeholder reached");
    let doc = [(chain[0], EBMLSize::Known(0), 0usize), (chain[1], EBMLSize::Known(0), 0), (chain[2], EBMLSize::Known(0), 0)];
    let got = validate_tag_path::<OnePathTag>(0x90, doc.into_iter().take(CLEN));
    assert!(got == want, "C11/C06/C02a: validate_tag_path accepts exactly the chains the declared path matches as a pattern");
}

macro_rules! val_h {
    ($name:ident, $p:literal, $c:literal) => {
        #[kani::proof]
        #[kani::unwind(8)]
        fn $name() {
            validate_onepath::<$p, $c>()
        }
    };
}
val_h!(c11_validate_p0_c0, 0, 0);
val_h!(c11_validate_p0_c1, 0, 1);
val_h!(c11_validate_p1_c0, 1, 0);
val_h!(c11_validate_p1_c1, 1, 1);
val_h!(c11_validate_p1_c2, 1, 2);
val_h!(c11_validate_p1_c3, 1, 3);
val_h!(c11_validate_p2_c0, 2, 0);
val_h!(c11_validate_p2_c1, 2, 1);
val_h!(c11_validate_p2_c2, 2, 2);
val_h!(c11_validate_p2_c3, 2, 3);
val_h!(c11_validate_p3_c0, 3, 0);
val_h!(c11_validate_p3_c1, 3, 1);
val_h!(c11_validate_p3_c2, 3, 2);
val_h!(c11_validate_p3_c3, 3, 3);

/// C07a: which element ends an unknown-size master, for all pairs over `Tree` plus
/// an arbitrary id outside the specification.
#[kani::proof]
#[kani::unwind(8)]
fn c07_is_ended_by_table() {
    let m: u64 = kani::any();
    let e: u64 = kani::any();
    kani::assume(m == tree::ROOT || m == tree::A || m == tree::B || m == tree::A2 || m == tree::ROOT2 || m == tree::C);
    let got = is_ended_by::<TreeTag>(m, e);
    // reference, straight from Tree's declaration (oracle::tree_direct_close)
    let declared = tree_declared(e);
    let global = tree_global(e);
    let want = tree_direct_close(m, e);
    kani::cover!(want && m == tree::C && e == tree::A, "instance of a non-direct, non-root ancestor ends C reached");
    kani::cover!(want && m == tree::B && e == tree::ROOT, "grand-parent instance ends B reached");
    kani::cover!(!want && global, "global element reached");
    kani::cover!(!want && !declared, "undeclared id reached");
    kani::cover!(want && m == tree::A && e == tree::A2, "sibling master reached");
    assert!(got == want, "C07/C06/C11a: an unknown-size master is ended exactly by a sibling, an instance of one of its ancestors, or a root element - never by a global or unknown element");
}

/// C11b/C06 (validator with unknown-size masters): `validate_tag_path` over spec `Tree`
/// for a concrete chain of open masters with a concrete known/unknown pattern (both
/// enumerated by the harness list) and EVERY element id: accepted iff the declared path
/// matches the chain that remains after the element closed the trailing run of
/// unknown-size masters it ends (C07's recursive rule) — in particular an unknown-size
/// master is NOT treated as closed while a known-size master is still open inside it.
fn validate_tree<const SEL: u8, const UNKNOWN_MASK: u8>() {
    let (ids, n): ([u64; 3], usize) = match SEL {
        1 => ([tree::ROOT, 0, 0], 1),
        2 => ([tree::ROOT, tree::A, 0], 2),
        3 => ([tree::ROOT, tree::A, tree::B], 3),
        4 => ([tree::ROOT, tree::A2, 0], 2),
        _ => ([tree::ROOT2, 0, 0], 1),
    };
    let unknown = [UNKNOWN_MASK & 1 != 0, UNKNOWN_MASK & 2 != 0, UNKNOWN_MASK & 4 != 0];
    // the element ranges over the finite set of declared ids; each is tried as a CONSTANT (a symbolic id makes the
    // validator's work vectors symbolic-length, which CBMC cannot digest once masters are closed)
    let size = |i: usize| if unknown[i] { EBMLSize::Unknown } else { EBMLSize::Known(0) };
    let mut k = 0;
    while k < tree::ALL.len() {
        let e = tree::ALL[k];
        let doc = [(ids[0], size(0), 0usize), (ids[1], size(1), 0), (ids[2], size(2), 0)];
        let keep = tree_chain_after_closing(&ids, &unknown, n, e);
        let want = ref_match(&ids[..keep], Tree::path(e));
        let got = validate_tag_path::<TreeTag>(e, doc.into_iter().take(n));
        assert!(got == want, "C11/C06/C07/C02b: hierarchy validation judges the element against the chain that remains after closing the unknown-size masters it ends");
        k += 1;
    }
    kani::cover!(true, "all declared ids tried");
}

macro_rules! vt_h {
    ($name:ident, $sel:literal, $mask:literal) => {
        #[kani::proof]
        #[kani::unwind(13)]
        fn $name() {
            validate_tree::<$sel, $mask>()
        }
    };
}
// chain [Root]: U ; [Root, A]: KU, UK, UU ; [Root, A, B]: all patterns with at least one unknown ; [Root, A2]: UK, UU ; [Root2]: U
vt_h!(c11_vtree_root_u, 1, 1);
vt_h!(c11_vtree_root_a_ku, 2, 2);
vt_h!(c11_vtree_root_a_uk, 2, 1);
vt_h!(c11_vtree_root_a_uu, 2, 3);
vt_h!(c11_vtree_root_a_b_kku, 3, 4);
vt_h!(c11_vtree_root_a_b_kuk, 3, 2);
vt_h!(c11_vtree_root_a_b_kuu, 3, 6);
vt_h!(c11_vtree_root_a_b_ukk, 3, 1);
vt_h!(c11_vtree_root_a_b_uku, 3, 5);
vt_h!(c11_vtree_root_a_b_uuk, 3, 3);
vt_h!(c11_vtree_root_a_b_uuu, 3, 7);
vt_h!(c11_vtree_root_a2_uk, 4, 1);
vt_h!(c11_vtree_root_a2_uu, 4, 3);
vt_h!(c11_vtree_root2_u, 5, 1);
