//! Extension round: C10 on the pre-states that `Inv_w` of wr.rs did not reach. The real writer does NOT
//! flush on an unknown-size Start (`start_unknown_size_tag` only appends the 9/10-byte header), so the
//! reachable invariant is weaker than "no known-size master open => buffer empty": the buffer may hold the
//! headers of the unknown-size masters started since the last element/End. From exactly those states the
//! property demands that a successful element write or master End hands over *everything*.
//! (Written after seed C10-s3: an early return "nothing appended => nothing to flush" in
//! write_explicit_sized leaves the header of an empty unknown-size master behind.)
use super::stubs;
use crate::specs::*;
use ebml_iterable::verif_hooks::EBMLSize;
use ebml_iterable::TagWriter;
use std::io::Write;

const SINK: usize = 48;

/// Destination that records what it is handed (accepts everything that fits).
struct Sink {
    data: [u8; SINK],
    len: usize,
}
impl Write for Sink {
    fn write(&mut self, buf: &[u8]) -> std::io::Result<usize> {
        let mut n = buf.len();
        if n > SINK - self.len {
            n = SINK - self.len;
        }
        let mut i = 0;
        while i < n {
            self.data[self.len + i] = buf[i];
            i += 1;
        }
        self.len += n;
        Ok(n)
    }
    fn flush(&mut self) -> std::io::Result<()> {
        Ok(())
    }
}

macro_rules! wstubs {
    ($(#[$m:meta])* fn $name:ident() $body:block) => {
        #[kani::proof]
        #[kani::stub(<core::io::CustomOwner as core::ops::Drop>::drop, stubs::noop_custom_owner_drop)]
        #[kani::stub(alloc::fmt::format, stubs::empty_format)]
        #[kani::stub(<ebml_iterable::error::ToolError as core::fmt::Display>::fmt, stubs::toolerror_display)]
        $(#[$m])*
        fn $name() $body
    };
}

/// public write(End(m)) of the innermost unknown-size master `m`, `N` pending bytes buffered (the header(s) of
/// unknown-size masters started since the last hand-over): Ok, master popped, every pending byte handed over in order.
fn end_unknown_hands_over<const N: usize>(open: Vec<(u64, EBMLSize, usize)>, closing: u64) {
    let pre: [u8; N] = kani::any();
    let depth = open.len();
    let mut w = TagWriter::new(Sink { data: [0; SINK], len: 0 });
    w.verif_seed(open, pre.to_vec());
    let tag = TreeTag::end(closing);
    let r = w.write(&tag);
    assert!(r.is_ok(), "C10: End of the innermost open master is accepted");
    assert!(w.verif_open().len() == depth - 1, "C10: the master is closed");
    assert!(w.verif_buf().is_empty(), "C10: End returned with no known-size master open => nothing stays buffered");
    let d = w.get_ref();
    assert!(d.len == N, "C10: every byte accepted so far has been handed over (an unknown-size End adds none)");
    let mut i = 0;
    while i < N {
        assert!(d.data[i] == pre[i], "C10: bytes are handed over unaltered and in order");
        i += 1;
    }
    kani::cover!(N == 0 || pre[0] != 0, "non-zero pending byte reached");
    core::mem::forget(r);
    core::mem::forget(w);
}
wstubs! {
#[kani::unwind(12)]
fn c10_end_unknown_pending_header() { end_unknown_hands_over::<9>(vec![(tree::ROOT, EBMLSize::Unknown, 0)], tree::ROOT) }
}
wstubs! {
#[kani::unwind(20)]
fn c10_end_unknown_nested_pending_headers() {
    end_unknown_hands_over::<18>(vec![(tree::ROOT, EBMLSize::Unknown, 0), (tree::A, EBMLSize::Unknown, 0)], tree::A)
}
}
wstubs! {
#[kani::unwind(12)]
fn c10_end_unknown_nothing_pending() { end_unknown_hands_over::<0>(vec![(tree::ROOT, EBMLSize::Unknown, 0)], tree::ROOT) }
}

wstubs! {
#[kani::unwind(15)]
fn c10_element_after_unknown_start() {
    // pre-state right after write_advanced(Start(Root), unknown size): 9 pending header bytes, then a global element
    let pre: [u8; 9] = kani::any();
    let payload: [u8; 2] = kani::any();
    let leaked: &'static [u8] = Box::leak(Box::new(payload));
    let mut w = TagWriter::new(Sink { data: [0; SINK], len: 0 });
    w.verif_seed(vec![(tree::ROOT, EBMLSize::Unknown, 0)], pre.to_vec());
    let tag = TreeTag::new(tree::VOID, Val::B(leaked));
    let r = w.write(&tag);
    assert!(r.is_ok(), "C10: a global element is accepted");
    assert!(w.verif_buf().is_empty(), "C10: no known-size master open => nothing stays buffered after a successful write");
    let d = w.get_ref();
    assert!(d.len == 13, "C10: pending header and element are handed over completely");
    let mut i = 0;
    while i < 9 {
        assert!(d.data[i] == pre[i], "C10: the pending header comes first, unaltered");
        i += 1;
    }
    assert!(d.data[9] == tree::VOID as u8 && d.data[10] == 0x82 && d.data[11] == payload[0] && d.data[12] == payload[1], "C10: then the element");
    kani::cover!(pre[8] != 0 && payload[1] != 0, "non-zero bytes reached");
    core::mem::forget(r);
    core::mem::forget(w);
}
}

wstubs! {
#[kani::unwind(12)]
fn c10_unknown_start_keeps_handed_over_prefix() {
    // Start(A, unknown size) under [Root unknown]: accepted; whatever the writer does with the header, nothing already
    // buffered is lost or reordered: destination ++ buffer == pre ++ header(A, unknown)
    let pre: [u8; 2] = kani::any();
    let mut w = TagWriter::new(Sink { data: [0; SINK], len: 0 });
    w.verif_seed(vec![(tree::ROOT, EBMLSize::Unknown, 0)], pre.to_vec());
    let tag = TreeTag::start(tree::A);
    let r = w.write_advanced(&tag, ebml_iterable::WriteOptions::is_unknown_sized_element());
    assert!(r.is_ok(), "C10: Root/A under Root is accepted");
    assert!(w.verif_open().len() == 2, "C10: the master is open");
    let d = w.get_ref();
    let b = w.verif_buf();
    assert!(d.len + b.len() >= 4, "C10: header appended");
    let at = |i: usize| if i < d.len { d.data[i] } else { b[i - d.len] };
    assert!(at(0) == pre[0] && at(1) == pre[1] && at(2) == tree::A as u8, "C10: destination ++ buffer is the previous content followed by the new header");
    kani::cover!(pre[0] != 0, "non-zero byte reached");
    core::mem::forget(r);
    core::mem::forget(w);
}
}
