//! C15 — vint codec. All [L] leaf harnesses over the public `tools` API; no hooks.
use crate::oracle::*;
use ebml_iterable::tools::{self, SignedVint, Vint};

/// (a) default encoder: Err iff v >= 2^56, else the shortest encoding.
#[kani::proof]
#[kani::unwind(10)]
fn c15_as_vint_shortest() {
    let v: u64 = kani::any();
    let r = v.as_vint();
    match ref_vint_min_len(v) {
        None => assert!(r.is_err(), "C15a: value >= 2^56 must be rejected"),
        Some(l) => {
            assert!(r.is_ok(), "C15a: value < 2^56 must be encodable");
            let bytes = r.unwrap();
            assert!(bytes.len() == l, "C15a: default encoding is the shortest");
            let want = ref_vint_fixed(v, l);
            let mut i = 0;
            while i < 8 {
                if i < l {
                    assert!(bytes[i] == want[8 - l + i], "C15a: encoded bytes");
                }
                i += 1;
            }
            kani::cover!(l == 8, "8-byte encoding reached");
            kani::cover!(l == 1 && v == 127, "all-ones 1-byte value reached");
        }
    }
}

macro_rules! fixed_width {
    ($name:ident, $L:literal) => {
        /// (b) fixed-width encoder: overflow exactly when v >= 2^(7L), else exactly L bytes.
        #[kani::proof]
        #[kani::unwind(10)]
        fn $name() {
            let v: u64 = kani::any();
            let r = v.as_vint_with_length::<$L>();
            if v >= (1u64 << (7 * $L)) {
                assert!(r.is_err(), "C15b: overflow must be reported");
                kani::cover!(v == (1u64 << (7 * $L)), "first rejected value reached");
            } else {
                assert!(r.is_ok(), "C15b: value fits the width");
                let bytes = r.unwrap();
                let want = ref_vint_fixed(v, $L);
                let mut i = 0;
                while i < $L {
                    assert!(bytes[i] == want[8 - $L + i], "C15b: fixed-width bytes");
                    i += 1;
                }
                // and the decoder inverts it with the right length
                let d = tools::read_vint(&bytes);
                assert!(matches!(d, Ok(Some((dv, dl))) if dv == v && dl == $L), "C15b: decode(fixed(v)) == (v, L)");
                kani::cover!(v == (1u64 << (7 * $L)) - 1, "last accepted value reached");
            }
        }
    };
}
fixed_width!(c15_as_vint_len_1, 1);
fixed_width!(c15_as_vint_len_2, 2);
fixed_width!(c15_as_vint_len_3, 3);
fixed_width!(c15_as_vint_len_4, 4);
fixed_width!(c15_as_vint_len_5, 5);
fixed_width!(c15_as_vint_len_6, 6);
fixed_width!(c15_as_vint_len_7, 7);
fixed_width!(c15_as_vint_len_8, 8);

/// (c) decoder on every slice of up to 9 bytes: total, need-more exactly for proper
/// prefixes, never a length beyond the slice, value == reference.
#[kani::proof]
#[kani::unwind(10)]
fn c15_read_vint_total() {
    let b: [u8; 9] = kani::any();
    let n: usize = kani::any();
    kani::assume(n <= 9);
    let r = tools::read_vint(&b[..n]);
    match ref_vint_decode(&b, n) {
        RefVint::NeedMore => assert!(matches!(r, Ok(None)), "C15c: need-more exactly for empty/proper prefix"),
        RefVint::Bad => assert!(r.is_err(), "C15c: zero first byte is an error"),
        RefVint::Val(v, l) => {
            assert!(l <= n, "oracle sanity");
            assert!(matches!(r, Ok(Some((dv, dl))) if dv == v && dl == l), "C15c: decoded value and length");
            kani::cover!(l == 8, "8-byte decode reached");
            kani::cover!(l == 1, "1-byte decode reached");
        }
    }
    kani::cover!(n == 0, "empty slice reached");
    kani::cover!(n == 9 && b[0] == 0, "zero first byte reached");
}

/// (d) decode(encode(v)) == (v, len) through the real functions only.
#[kani::proof]
#[kani::unwind(10)]
fn c15_roundtrip_default() {
    let v: u64 = kani::any();
    kani::assume(v < (1u64 << 56));
    let bytes = v.as_vint().unwrap();
    let d = tools::read_vint(&bytes);
    assert!(matches!(d, Ok(Some((dv, dl))) if dv == v && dl == bytes.len()), "C15/C01d: decode(encode(v)) == v");
    kani::cover!(bytes.len() == 8, "8-byte round trip reached");
}

/// (e1) signed default encoder: accepts exactly -2^55 < v < 2^55, uses the shortest
/// width (at the single boundary value -2^(7l-1), which fits 7l bits but is not
/// *strictly* inside the range, either l or l+1 is accepted), decodes back.
#[kani::proof]
#[kani::unwind(10)]
fn c15_signed_default() {
    let v: i64 = kani::any();
    let r = v.as_signed_vint();
    if !ref_svint_fits_strict(v, 8) {
        assert!(r.is_err(), "C15e: out-of-range signed value must be rejected");
    } else {
        assert!(r.is_ok(), "C15e: in-range signed value must be encodable");
        let bytes = r.unwrap();
        let l = bytes.len();
        assert!(l >= 1 && l <= 8, "C15e: width in 1..=8");
        assert!(ref_svint_fits_incl(v, l), "C15e: value fits the chosen width");
        assert!(l == 1 || !ref_svint_fits_strict(v, l - 1), "C15e: no shorter width holds the value");
        let d = tools::read_signed_vint(&bytes);
        assert!(matches!(d, Ok(Some((dv, dl))) if dv == v && dl == l), "C15e: signed decode(encode(v)) == v");
        kani::cover!(l == 8 && v > 0, "positive 8-byte signed reached");
        kani::cover!(l == 8 && v < 0, "negative 8-byte signed reached");
    }
}

/// (e2) signed fixed-width encoder for every width 1..=8 (symbolic).
#[kani::proof]
#[kani::unwind(10)]
fn c15_signed_with_length() {
    let v: i64 = kani::any();
    let l: usize = kani::any();
    kani::assume(l >= 1 && l <= 8);
    let r = v.as_signed_vint_with_length(l);
    if !ref_svint_fits_strict(v, l) {
        assert!(r.is_err(), "C15e: value outside the width's range must be rejected");
    } else {
        assert!(r.is_ok(), "C15e: value strictly inside the width's range must be encoded");
        let bytes = r.unwrap();
        assert!(bytes.len() == l, "C15e: exactly the requested width");
        let d = tools::read_signed_vint(&bytes);
        assert!(matches!(d, Ok(Some((dv, dl))) if dv == v && dl == l), "C15e: signed decode inverts every width incl. 8");
        let u = tools::read_vint(&bytes);
        assert!(matches!(u, Ok(Some((_, ul))) if ul == l), "C15e: unsigned decoder agrees on the length");
        kani::cover!(l == 8 && v >= 0, "width 8 non-negative reached");
        kani::cover!(l == 8 && v < 0, "width 8 negative reached");
        kani::cover!(l == 1, "width 1 reached");
    }
}

/// (e3) signed decoder total on every slice <= 9 bytes and agrees with the unsigned
/// decoder on need-more / error / length.
#[kani::proof]
#[kani::unwind(10)]
fn c15_read_signed_total() {
    let b: [u8; 9] = kani::any();
    let n: usize = kani::any();
    kani::assume(n <= 9);
    let s = tools::read_signed_vint(&b[..n]);
    match ref_vint_decode(&b, n) {
        RefVint::NeedMore => assert!(matches!(s, Ok(None)), "C15e: signed need-more exactly for proper prefixes"),
        RefVint::Bad => assert!(s.is_err(), "C15e: signed decoder rejects zero first byte"),
        RefVint::Val(raw, l) => {
            // value: the 7l-bit field read as two's complement
            let bits = 7 * l as u32;
            let want = if raw & (1u64 << (bits - 1)) != 0 { (raw | (!0u64 << bits)) as i64 } else { raw as i64 };
            assert!(matches!(s, Ok(Some((dv, dl))) if dl == l && dv == want), "C15e: signed decoded value and length");
            kani::cover!(l == 8 && want >= 0, "8-byte non-negative decode reached");
        }
    }
}

/// (f) well-formed-id predicate, all 2^64 values.
#[kani::proof]
fn c15_is_vint() {
    let v: u64 = kani::any();
    assert!(tools::is_vint(v) == ref_id_wellformed(v), "C15f: is_vint(v) iff byte length matches the length marker");
    kani::cover!(tools::is_vint(v) && v > 0x00FF_FFFF_FFFF_FFFF, "8-byte well-formed id reached");
    kani::cover!(v == 1, "value 1 reached");
}
