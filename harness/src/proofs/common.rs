//! Shared helpers for [U]/[S] harnesses.
use crate::specs::*;
use ebml_iterable::error::{CorruptedFileError, TagIteratorError};
use ebml_iterable::TagIterator;

pub const MASK_ID: u8 = 1;
pub const MASK_HIER: u8 = 2;
pub const MASK_OVER: u8 = 4;

pub fn apply_mask<R: std::io::Read, S: SpecTable>(it: &mut TagIterator<R, Tag<S>>, mask: u8) {
    use ebml_iterable::iterator::AllowableErrors::*;
    // allow_errors folds a slice; build it from the symbolic mask
    match mask & 7 {
        0 => it.allow_errors(&[]),
        1 => it.allow_errors(&[InvalidTagIds]),
        2 => it.allow_errors(&[HierarchyProblems]),
        3 => it.allow_errors(&[InvalidTagIds, HierarchyProblems]),
        4 => it.allow_errors(&[OversizedTags]),
        5 => it.allow_errors(&[InvalidTagIds, OversizedTags]),
        6 => it.allow_errors(&[HierarchyProblems, OversizedTags]),
        _ => it.allow_errors(&[InvalidTagIds, HierarchyProblems, OversizedTags]),
    }
}

/// Flattened view of an iterator error, so assertions do not need to drop anything.
#[derive(Copy, Clone, PartialEq, Eq)]
pub enum ErrKind {
    Eof { tag_start: usize, tag_id: Option<u64>, tag_size: Option<usize>, partial_len: Option<usize> },
    InvalidTagId { tag_id: u64, position: usize },
    InvalidTagData { tag_id: u64, position: usize },
    Hierarchy { found_tag_id: u64, current_parent_id: Option<u64> },
    Oversized { position: usize, tag_id: u64, size: usize },
    InvalidTagSize { position: usize, tag_id: u64, size: usize },
    CorruptedTagData { tag_id: u64 },
    Read,
}

pub fn kind_of(e: &TagIteratorError) -> ErrKind {
    match e {
        TagIteratorError::UnexpectedEOF { tag_start, tag_id, tag_size, partial_data } => {
            ErrKind::Eof { tag_start: *tag_start, tag_id: *tag_id, tag_size: *tag_size, partial_len: partial_data.as_ref().map(|d| d.len()) }
        }
        TagIteratorError::CorruptedFileData(c) => match c {
            CorruptedFileError::InvalidTagId { tag_id, position } => ErrKind::InvalidTagId { tag_id: *tag_id, position: *position },
            CorruptedFileError::InvalidTagData { tag_id, position } => ErrKind::InvalidTagData { tag_id: *tag_id, position: *position },
            CorruptedFileError::HierarchyError { found_tag_id, current_parent_id } => {
                ErrKind::Hierarchy { found_tag_id: *found_tag_id, current_parent_id: *current_parent_id }
            }
            CorruptedFileError::OversizedChildElement { position, tag_id, size } => ErrKind::Oversized { position: *position, tag_id: *tag_id, size: *size },
            CorruptedFileError::InvalidTagSize { position, tag_id, size } => ErrKind::InvalidTagSize { position: *position, tag_id: *tag_id, size: *size },
        },
        TagIteratorError::CorruptedTagData { tag_id, .. } => ErrKind::CorruptedTagData { tag_id: *tag_id },
        TagIteratorError::ReadError { .. } => ErrKind::Read,
    }
}
