//! [U] `peek_valid_tag_header` on a fully symbolic buffer window with symbolic fill
//! level, cursor, base offset, tolerance mask and size limit. Serves C03a, C04a, C05a,
//! C12a, C13, C17a (Flat); C06b, C11b, C13 (Tree, in hdr_tree.rs).
use super::common::*;
use super::stubs;
use crate::oracle::*;
use crate::specs::*;
use ebml_iterable::specs::TagDataType;
use ebml_iterable::verif_hooks::EBMLSize;
use ebml_iterable::TagIterator;

const WIN: usize = 24;

fn is_numeric(t: Option<TagDataType>) -> bool {
    matches!(t, Some(TagDataType::UnsignedInt) | Some(TagDataType::Integer) | Some(TagDataType::Float))
}

/// FULL: at least 16 bytes buffered behind a symbolic cursor (the refill path is not
/// entered). TRUNC: fewer than 16 bytes buffered, cursor 0, source at EOF — the state
/// `ensure_data_read` leaves behind (its contract is verified separately in edr.rs).
fn hdr_flat_body<const FULL: bool>(covers: fn(&RefHeader, usize, usize, &[u8; WIN])) {
    let win: [u8; WIN] = kani::any();
    let fill: usize = kani::any();
    let cursor: usize = kani::any();
    let base: usize = kani::any();
    if FULL {
        kani::assume(cursor <= 3 && fill >= cursor + 16 && fill <= WIN);
    } else {
        kani::assume(cursor == 0 && fill < 16);
    }
    kani::assume(base < (1usize << 40));
    let mask: u8 = kani::any();
    kani::assume(mask < 8);
    let limit: Option<usize> = kani::any();

    let src: &[u8] = &[]; // source at end of file: the window is all there is
    let mut it: TagIterator<&[u8], FlatTag> = TagIterator::with_capacity(src, &[], 0);
    apply_mask(&mut it, mask);
    it.set_max_allowable_tag_size(limit);
    it.verif_set_buffer(Box::new(win), fill, cursor, Some(base));

    let avail = fill - cursor;
    let want = ref_header(&win[cursor..], avail);
    let pos = base + cursor;

    covers(&want, avail, cursor, &win);

    let r = it.verif_peek_valid_tag_header();

    // C04b-style post-state: the logical stream position and the bytes behind it are unchanged
    assert!(it.verif_current_offset() == pos, "C03/C04a: peeking does not move the read position");
    assert!(it.verif_fill() - it.verif_cursor() == avail, "C04a: peeking neither gains nor loses buffered bytes at EOF");

    match want {
        RefHeader::NeedMore { id } => match &r {
            Err(e) => {
                let k = kind_of(e);
                assert!(!matches!(k, ErrKind::InvalidTagId { .. } | ErrKind::InvalidTagData { .. } | ErrKind::Hierarchy { .. } | ErrKind::Oversized { .. } | ErrKind::InvalidTagSize { .. }),
                    "C12/C04a: a merely truncated header is never reported as corruption");
                assert!(matches!(k, ErrKind::Eof { tag_start, tag_id, tag_size: None, partial_len: None | Some(0) } if tag_start == pos && tag_id == id),
                    "C12/C04a: EOF error: start == offset of the incomplete tag, id present iff id bytes complete, no size");
            }
            Ok(_) => assert!(false, "C12/C04a: incomplete header must not be accepted (stale bytes beyond the fill level were parsed)"),
        },
        RefHeader::BadId => {
            // a zero first byte cannot start any element id: never accepted as a specification element
            match &r {
                Ok((_, rty, _, _)) => assert!(mask & MASK_ID != 0 && rty.is_none(), "C13/C03/C14: a zero first byte cannot begin any element id: never accepted as a specification element (junk is not swallowed as id padding)"),
                Err(_) => {}
            }
        }
        RefHeader::BadSize { id } => match &r {
            Err(e) => assert!(matches!(kind_of(e), ErrKind::InvalidTagData { tag_id, position } if tag_id == id && position == pos)
                              || matches!(kind_of(e), ErrKind::InvalidTagId { tag_id, position } if tag_id == id && position == pos && Flat::ty(id).is_none() && mask & MASK_ID == 0),
                              "C13: size field with zero first byte is corrupted data at the element's offset"),
            Ok(_) => assert!(false, "C05a: zero size-field byte accepted"),
        },
        RefHeader::Ok { id, id_len, size, size_len } => {
            let ty = Flat::ty(id);
            let hl = id_len + size_len;
            let f_id = ty.is_none() && mask & MASK_ID == 0;
            let f_limit = match (size, limit) {
                (RefSize::Known(s), Some(m)) => s > m as u64,
                _ => false,
            };
            let numeric_bad = is_numeric(ty) && !matches!(size, RefSize::Known(s) if s <= 8);
            match &r {
                Ok((rid, rty, rsize, rhl)) => {
                    assert!(*rid == id && *rhl == hl, "C03/C04a: accepted header has the id and length found at the offset");
                    assert!(*rty == ty, "C03/C04a: accepted header carries the specification's type for the id");
                    match size {
                        RefSize::Known(s) => assert!(*rsize == EBMLSize::Known(s as usize), "C03/C04a: accepted header carries the declared size"),
                        RefSize::Unknown => assert!(*rsize == EBMLSize::Unknown, "C03/C04a: all-ones size field means unknown size"),
                    }
                    assert!(*rhl >= 2 && *rhl <= avail, "C05a: accepted header is >= 2 bytes and lies within the available bytes");
                    assert!(!f_id, "C13: unknown id accepted although unknown ids are not tolerated");
                    assert!(!f_limit, "C13/C17a: declared size above the limit accepted (the limit stays in force under every tolerance setting)");
                }
                Err(e) => {
                    let k = kind_of(e);
                    let ok_id = f_id && matches!(k, ErrKind::InvalidTagId { tag_id, position } if tag_id == id && position == pos);
                    let ok_limit = f_limit && matches!(k, ErrKind::InvalidTagSize { tag_id, position, size: sz } if tag_id == id && position == pos && RefSize::Known(sz as u64) == size);
                    let ok_num = numeric_bad && matches!(k, ErrKind::InvalidTagData { tag_id, position } if tag_id == id && position == pos);
                    assert!(ok_id || ok_limit || ok_num, "C13: a complete header is rejected only for a fault it has, with that fault's kind, id and offset");
                }
            }
            kani::cover!(f_limit && !f_id && r.is_err(), "size-limit rejection reached");
            kani::cover!(r.is_ok() && matches!(size, RefSize::Unknown), "unknown-size accepted header reached");
            kani::cover!(r.is_ok() && ty.is_none(), "tolerated unknown id reached");
        }
    }
    core::mem::forget(r);
    core::mem::forget(it);
}

#[kani::proof]
#[kani::unwind(10)]
#[kani::stub(<core::io::CustomOwner as core::ops::Drop>::drop, stubs::noop_custom_owner_drop)]
#[kani::stub(std::hash::RandomState::new, stubs::fixed_random_state)]
fn hdr_flat_full() {
    fn covers(want: &RefHeader, _avail: usize, cursor: usize, _win: &[u8; WIN]) {
        kani::cover!(matches!(want, RefHeader::Ok { id_len: 8, size_len: 8, .. }), "16-byte header reached");
        kani::cover!(matches!(want, RefHeader::Ok { id_len: 1, size_len: 1, .. }) && cursor == 3, "2-byte header at cursor 3 reached");
    }
    hdr_flat_body::<true>(covers)
}

#[kani::proof]
#[kani::unwind(10)]
#[kani::stub(<core::io::CustomOwner as core::ops::Drop>::drop, stubs::noop_custom_owner_drop)]
#[kani::stub(std::hash::RandomState::new, stubs::fixed_random_state)]
fn hdr_flat_trunc() {
    fn covers(want: &RefHeader, avail: usize, cursor: usize, win: &[u8; WIN]) {
        kani::cover!(avail == 1 && win[cursor + 1] != 0, "cut after 1 byte with non-zero stale byte behind");
        kani::cover!(matches!(want, RefHeader::Ok { id_len: 1, size_len: 1, .. }) && avail == 2, "header complete, no payload byte");
        kani::cover!(matches!(want, RefHeader::NeedMore { id: Some(_) }), "cut inside size field reached");
        kani::cover!(matches!(want, RefHeader::NeedMore { id: None }) && avail > 0, "cut inside id reached");
    }
    hdr_flat_body::<false>(covers)
}
