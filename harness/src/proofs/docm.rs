//! [S] documents WITH masters through the public API (spec `Mini`: Root{U}, spec `Tree`).
//! These are the only harnesses that run `read_next`'s master mechanics: Start/End
//! emission, End when a known-size range is exhausted, End at end of input, offsets of
//! Ends. DESIGN §2 row 38 predicted they would not finish; with unwind 10 and concrete
//! structure they are attempted again (thorough tier unless measured cheap).
use super::common::*;
use super::stubs;
use crate::specs::*;
use ebml_iterable::TagIterator;

const ROOT: u8 = 0x81;
const U: u8 = 0x82;

/// `Root(size field sz){ U(1 byte v) }`, optionally followed by a second `Root{}`;
/// `unknown`: Root has the 1-byte unknown-size field 0xFF and is closed by EOF or by the following Root.
fn mini_doc(unknown: bool, follow: bool, cut: usize) {
    let v: u8 = kani::any();
    let mut doc = [0u8; 8];
    doc[0] = ROOT;
    doc[1] = if unknown { 0xFF } else { 0x83 };
    doc[2] = U;
    doc[3] = 0x81;
    doc[4] = v;
    let mut total = 5;
    if follow {
        doc[5] = ROOT;
        doc[6] = 0x80;
        total = 7;
    }
    let len = if cut < total { cut } else { total };
    let src: &[u8] = Box::leak(Box::new(doc));
    let mut it: TagIterator<&[u8], MiniTag> = TagIterator::with_capacity(&src[..len], &[], 32);
    kani::cover!(v != 0, "non-zero payload reached");

    // 1: Start(Root) at 0
    let r = it.next();
    assert!(matches!(&r, Some(Ok(t)) if t.id == ROOT as u64 && t.is_start()), "C06: master Start emitted once its header is complete");
    assert!(it.last_emitted_tag_offset() == 0, "C03: Start reports the master's offset");
    core::mem::forget(r);
    // 2: U(v) at 2
    let r = it.next();
    assert!(matches!(&r, Some(Ok(t)) if t.id == U as u64 && matches!(t.val, Val::U(x) if x == v as u64)), "C03: child value decoded from its payload");
    assert!(it.last_emitted_tag_offset() == 2, "C03: child starts where the master's header ends");
    core::mem::forget(r);
    // 3: End(Root) reporting offset 0 — because the known range is exhausted, or the next root / EOF closes it
    let r = it.next();
    assert!(matches!(&r, Some(Ok(t)) if t.id == ROOT as u64 && t.is_end()), "C06/C07: the master's End is emitted when its range is exhausted / a root element follows / input ends");
    assert!(it.last_emitted_tag_offset() == 0, "C03: End reports the same offset as the master's Start");
    core::mem::forget(r);
    if follow {
        let r = it.next();
        assert!(matches!(&r, Some(Ok(t)) if t.id == ROOT as u64 && t.is_start()), "C07: the element that closed the master is emitted after its End");
        assert!(it.last_emitted_tag_offset() == 5, "C03: next item starts where the previous payload ended");
        core::mem::forget(r);
        let r = it.next();
        assert!(matches!(&r, Some(Ok(t)) if t.id == ROOT as u64 && t.is_end()), "C06: empty master gets its End");
        assert!(it.last_emitted_tag_offset() == 5, "C03: End reports the master's offset");
        core::mem::forget(r);
    }
    let r = it.next();
    assert!(r.is_none(), "C06: nothing after the last End");
    core::mem::forget(r);
    core::mem::forget(it);
}

macro_rules! docm_h {
    ($name:ident, $unknown:literal, $follow:literal, $cut:literal) => {
        #[kani::proof]
        #[kani::unwind(10)]
        #[kani::stub(<core::io::CustomOwner as core::ops::Drop>::drop, stubs::noop_custom_owner_drop)]
        #[kani::stub(std::hash::RandomState::new, stubs::fixed_random_state)]
        fn $name() {
            mini_doc($unknown, $follow, $cut)
        }
    };
}
docm_h!(docm_known, false, false, 99);
docm_h!(docm_unknown_eof, true, false, 99);
docm_h!(docm_known_follow, false, true, 99);
docm_h!(docm_unknown_follow, true, true, 99);
