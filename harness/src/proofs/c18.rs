//! C18 — derived specifications, accepted-declaration half. For each corpus
//! declaration and BOTH macro front-ends: a fully symbolic probe id and symbolic
//! payloads; the generated tables, constructors and accessors must mean exactly what
//! was declared. (The compile-error half is outside: only rustc can observe it.)
use crate::derived::*;
use ebml_iterable::specs::{EbmlSpecification, EbmlTag, Master, PathPart, TagDataType};

fn lookup(rows: &[Row], id: u64) -> Option<(TagDataType, &'static [PathPart])> {
    let mut found = None;
    let mut i = 0;
    while i < rows.len() {
        if rows[i].0 == id {
            found = Some((rows[i].1, rows[i].2));
        }
        i += 1;
    }
    if id == IMPLICIT[0].0 {
        found = Some((IMPLICIT[0].1, IMPLICIT[0].2));
    }
    if id == IMPLICIT[1].0 {
        found = Some((IMPLICIT[1].1, IMPLICIT[1].2));
    }
    found
}

fn path_eq(a: &[PathPart], b: &[PathPart]) -> bool {
    if a.len() != b.len() {
        return false;
    }
    let mut i = 0;
    while i < a.len() {
        if a[i] != b[i] {
            return false;
        }
        i += 1;
    }
    true
}

/// Tables: data type and path of a symbolic id.
fn check_tables<T: EbmlSpecification<T> + EbmlTag<T> + Clone>(rows: &[Row], id: u64) -> (Option<TagDataType>, &'static [PathPart]) {
    let want = lookup(rows, id);
    let ty = T::get_tag_data_type(id);
    let path = T::get_path_by_id(id);
    match want {
        Some((wt, wp)) => {
            assert!(ty == Some(wt), "C18: declared id reports exactly the declared data type");
            assert!(path_eq(path, wp), "C18: declared id reports exactly the declared path");
        }
        None => {
            assert!(ty.is_none(), "C18: undeclared id has no data type");
            assert!(path.is_empty(), "C18: undeclared id has an empty path");
        }
    }
    kani::cover!(want.is_some(), "declared id reached");
    kani::cover!(want.is_none(), "undeclared id reached");
    kani::cover!(id == 0xec, "Void reached");
    kani::cover!(id == 0xbf, "Crc32 reached");
    (ty, path)
}

/// Numeric constructors and accessors (unsigned, signed, float).
fn check_numeric<T: EbmlSpecification<T> + EbmlTag<T> + Clone>(id: u64) {
    let ty = T::get_tag_data_type(id);
    let u: u64 = kani::any();
    let t = T::get_unsigned_int_tag(id, u);
    assert!(t.is_some() == (ty == Some(TagDataType::UnsignedInt)), "C18: unsigned constructor succeeds iff the id is UnsignedInt");
    if let Some(t) = &t {
        assert!(t.get_id() == id && t.as_unsigned_int() == Some(&u), "C18: unsigned tag returns its id and payload");
        assert!(t.as_signed_int().is_none() && t.as_float().is_none() && t.as_utf8().is_none() && t.as_binary().is_none() && t.as_master().is_none(),
            "C18: unsigned tag answers no other accessor");
    }
    core::mem::forget(t);
    let i: i64 = kani::any();
    let t = T::get_signed_int_tag(id, i);
    assert!(t.is_some() == (ty == Some(TagDataType::Integer)), "C18: signed constructor succeeds iff the id is Integer");
    if let Some(t) = &t {
        assert!(t.get_id() == id && t.as_signed_int() == Some(&i), "C18: signed tag returns its id and payload");
        assert!(t.as_unsigned_int().is_none() && t.as_float().is_none() && t.as_utf8().is_none() && t.as_binary().is_none() && t.as_master().is_none(),
            "C18: signed tag answers no other accessor");
    }
    core::mem::forget(t);
    let fb: u64 = kani::any();
    let f = f64::from_bits(fb);
    let t = T::get_float_tag(id, f);
    assert!(t.is_some() == (ty == Some(TagDataType::Float)), "C18: float constructor succeeds iff the id is Float");
    if let Some(t) = &t {
        assert!(t.get_id() == id && matches!(t.as_float(), Some(g) if g.to_bits() == fb), "C18: float tag returns its id and payload bit for bit");
        assert!(t.as_unsigned_int().is_none() && t.as_signed_int().is_none() && t.as_utf8().is_none() && t.as_binary().is_none() && t.as_master().is_none(),
            "C18: float tag answers no other accessor");
    }
    core::mem::forget(t);
    kani::cover!(ty.is_none(), "undeclared id reached");
}

/// Heap-carrying constructors and accessors (utf8, binary, master, raw).
fn check_heap<T: EbmlSpecification<T> + EbmlTag<T> + Clone>(id: u64) {
    let ty = T::get_tag_data_type(id);
    let t = T::get_utf8_tag(id, String::from("ab"));
    assert!(t.is_some() == (ty == Some(TagDataType::Utf8)), "C18: utf8 constructor succeeds iff the id is Utf8");
    if let Some(t) = &t {
        assert!(t.get_id() == id && matches!(t.as_utf8(), Some(s) if s.len() == 2 && s.as_bytes()[0] == b'a' && s.as_bytes()[1] == b'b'), "C18: utf8 tag returns its id and payload");
        assert!(t.as_unsigned_int().is_none() && t.as_signed_int().is_none() && t.as_float().is_none() && t.as_binary().is_none() && t.as_master().is_none(),
            "C18: utf8 tag answers no other accessor");
    }
    core::mem::forget(t);
    let b: [u8; 2] = kani::any();
    let t = T::get_binary_tag(id, &b);
    assert!(t.is_some() == (ty == Some(TagDataType::Binary)), "C18: binary constructor succeeds iff the id is Binary");
    if let Some(t) = &t {
        assert!(t.get_id() == id && matches!(t.as_binary(), Some(s) if s.len() == 2 && s[0] == b[0] && s[1] == b[1]), "C18: binary tag returns its id and payload");
        assert!(t.as_unsigned_int().is_none() && t.as_signed_int().is_none() && t.as_float().is_none() && t.as_utf8().is_none() && t.as_master().is_none(),
            "C18: binary tag answers no other accessor");
    }
    core::mem::forget(t);
    // two concrete positions (a symbolic one would make CBMC walk the recursive drop glue of Master::Full)
    let t = T::get_master_tag(id, Master::Start);
    assert!(t.is_some() == (ty == Some(TagDataType::Master)), "C18: master constructor succeeds iff the id is Master");
    if let Some(t) = &t {
        assert!(t.get_id() == id, "C18: master tag returns its id");
        assert!(matches!(t.as_master(), Some(Master::Start)), "C18: master tag returns its position");
        assert!(t.as_unsigned_int().is_none() && t.as_signed_int().is_none() && t.as_float().is_none() && t.as_utf8().is_none() && t.as_binary().is_none(),
            "C18: master tag answers no other accessor");
    }
    core::mem::forget(t);
    let t = T::get_master_tag(id, Master::End);
    assert!(t.is_some() == (ty == Some(TagDataType::Master)), "C18: master constructor succeeds iff the id is Master");
    if let Some(t) = &t {
        assert!(t.get_id() == id && matches!(t.as_master(), Some(Master::End)), "C18: master tag returns its id and position");
    }
    core::mem::forget(t);
    // raw-tag variant
    let t = T::get_raw_tag(id, &b);
    assert!(t.get_id() == id && matches!(t.as_binary(), Some(s) if s.len() == 2 && s[0] == b[0] && s[1] == b[1]), "C18: raw tag keeps id and bytes");
    assert!(t.as_unsigned_int().is_none() && t.as_signed_int().is_none() && t.as_float().is_none() && t.as_utf8().is_none() && t.as_master().is_none(),
        "C18: raw tag is retrievable only as binary");
    core::mem::forget(t);
    kani::cover!(ty == Some(TagDataType::Binary), "binary id reached");
    kani::cover!(ty.is_none(), "undeclared id reached");
}

macro_rules! c18 {
    ($tname:ident, $nname:ident, $hname:ident, $m:ident) => {
        #[kani::proof]
        #[kani::unwind(12)]
        fn $tname() {
            let id: u64 = kani::any();
            let (ta, pa) = check_tables::<$m::A>(&$m::ROWS, id);
            let (te, pe) = check_tables::<$m::E>(&$m::ROWS, id);
            assert!(ta == te && path_eq(pa, pe), "C18: both macro front-ends generate the same specification");
        }
        #[kani::proof]
        #[kani::unwind(12)]
        fn $nname() {
            let id: u64 = kani::any();
            check_numeric::<$m::A>(id);
            check_numeric::<$m::E>(id);
        }
        #[kani::proof]
        #[kani::unwind(12)]
        fn $hname() {
            let id: u64 = kani::any();
            check_heap::<$m::A>(id);
            check_heap::<$m::E>(id);
        }
    };
}
c18!(c18_tables_d1, c18_numeric_d1, c18_heap_d1, d1);
c18!(c18_tables_d2, c18_numeric_d2, c18_heap_d2, d2);
c18!(c18_tables_d3, c18_numeric_d3, c18_heap_d3, d3);
c18!(c18_tables_d4, c18_numeric_d4, c18_heap_d4, d4);
