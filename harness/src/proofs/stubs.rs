//! Stubs (T2). Observed by no property: the payload of a custom io::Error, the
//! hash order of the buffered-id set, and error message text.
use core::fmt;

pub fn noop_custom_owner_drop(_this: &mut core::io::CustomOwner) {}

pub fn fixed_random_state() -> std::hash::RandomState {
    unsafe { core::mem::transmute((1u64, 2u64)) }
}

pub fn empty_format(_args: fmt::Arguments<'_>) -> String {
    String::new()
}

pub fn toolerror_display(_e: &ebml_iterable::error::ToolError, _f: &mut fmt::Formatter<'_>) -> fmt::Result {
    Ok(())
}
