//! [U] `try_recover` from a seeded state. C14a: junk before a valid tag that still
//! fits its ancestors at their original sizes -> Ok, cursor advanced by exactly the
//! junk length, known sizes grown by it, the next header is the planted one.
//! C05e/C14: from an arbitrary window it never panics, never moves backwards, and
//! fails only with end-of-input or a read error.
use super::common::*;
use super::stubs;
use crate::specs::*;
use ebml_iterable::verif_hooks::{EBMLSize, ProcessingTag};
use ebml_iterable::TagIterator;

const ROOT: u64 = 0x81;
const U: u64 = 0x82;

fn seeded(buf: [u8; 24], fill: usize, cursor: usize, base: usize, root_size: usize) -> TagIterator<&'static [u8], MiniTag> {
    let src: &[u8] = &[];
    let mut it: TagIterator<&[u8], MiniTag> = TagIterator::with_capacity(src, &[], 0);
    it.verif_set_buffer(Box::new(buf), fill, cursor, Some(base));
    // Root opened at absolute offset base, header 2 bytes
    it.verif_set_stack(vec![ProcessingTag { tag: MiniTag::end(ROOT), size: EBMLSize::Known(root_size), tag_start: base, data_start: base + 2 }], true);
    it
}

/// J junk bytes, then a planted valid child `[0x82, 0x80]`.
fn recover_after_junk<const J: usize>() {
    // symbolic: the junk bytes, the child's payload, the bytes behind it (stale), Root's size; the absolute
    // offset is a constant (it only shifts every reported position) and the bytes before the cursor are never read
    let mut buf = [0u8; 24];
    let sym: [u8; 6] = kani::any();
    let base: usize = 1000;
    let cursor = 2usize; // right behind Root's header
    let mut f = 0;
    while f < 6 {
        buf[cursor + f] = sym[f];
        f += 1;
    }
    let mut i = 0;
    while i < J {
        // junk: a byte that is not an id of the specification; everything starting there is rejected
        kani::assume(buf[cursor + i] != ROOT as u8 && buf[cursor + i] != U as u8);
        i += 1;
    }
    // the junk run must not *contain* an acceptable header start either (J == 2: second junk byte)
    // the planted valid child: an empty unsigned element `[U, size 0]`, then end of input
    buf[cursor + J] = U as u8;
    buf[cursor + J + 1] = 0x80;
    let fill = cursor + J + 2;
    let root_size: usize = kani::any();
    // premise: the planted tag, shifted by J, still fits Root at its ORIGINAL size
    kani::assume(root_size >= J + 2 && root_size < (1usize << 40));
    let mut it = seeded(buf, fill, cursor, base, root_size);
    let start_abs = base + cursor;
    kani::cover!(buf[cursor] == 0, "zero junk byte reached");
    kani::cover!(buf[cursor] == 0x40, "junk byte that starts a longer id reached");
    kani::cover!(root_size == J + 2, "tight fit reached");

    let r = it.try_recover();

    assert!(r.is_ok(), "C14/C05a: recovery succeeds when a valid tag follows the junk");
    assert!(it.verif_current_offset() == start_abs + J, "C14/C05a: recovery stops exactly at the tag that follows the junk");
    assert!(it.verif_stack().len() == 1 && it.verif_stack()[0].size == EBMLSize::Known(root_size + J), "C14/C05a: enclosing known sizes grow by the junk length");
    assert!(it.verif_stack()[0].data_start == base + 2 && it.verif_stack()[0].tag_start == base, "C14/C05a: enclosing master's offsets are untouched");
    let h = it.verif_peek_valid_tag_header();
    assert!(matches!(&h, Ok((id, _, EBMLSize::Known(0), 2)) if *id == U), "C14/C05a: the next header is the planted tag");
    core::mem::forget(h);
    core::mem::forget(r);
    core::mem::forget(it);
}

#[kani::proof]
#[kani::unwind(10)]
#[kani::stub(<core::io::CustomOwner as core::ops::Drop>::drop, stubs::noop_custom_owner_drop)]
#[kani::stub(std::hash::RandomState::new, stubs::fixed_random_state)]
fn c14_recover_junk1() {
    recover_after_junk::<1>()
}

#[kani::proof]
#[kani::unwind(10)]
#[kani::stub(<core::io::CustomOwner as core::ops::Drop>::drop, stubs::noop_custom_owner_drop)]
#[kani::stub(std::hash::RandomState::new, stubs::fixed_random_state)]
fn c14_recover_junk2() {
    recover_after_junk::<2>()
}

/// Arbitrary K-byte window behind the cursor, source at EOF.
fn recover_arbitrary<const K: usize>() {
    let mut buf = [0u8; 24];
    let sym: [u8; 6] = kani::any(); // the K remaining bytes and stale bytes behind them
    let base: usize = 1000;
    let cursor = 2usize;
    let mut f = 0;
    while f < 6 {
        buf[cursor + f] = sym[f];
        f += 1;
    }
    let fill = cursor + K;
    let root_size: usize = kani::any();
    kani::assume(root_size < (1usize << 40));
    let mut it = seeded(buf, fill, cursor, base, root_size);
    let start_abs = base + cursor;
    let r = it.try_recover();
    kani::cover!(K < 3 || (r.is_ok() && it.verif_current_offset() == start_abs + 1), "recovered after one byte reached");
    assert!(it.verif_current_offset() >= start_abs, "C14/C05: try_recover never moves backwards");
    assert!(it.verif_current_offset() <= start_abs + K, "C14/C05: try_recover never moves past the end of the input");
    match &r {
        Ok(()) => {}
        Err(e) => {
            assert!(matches!(kind_of(e), ErrKind::Eof { .. } | ErrKind::Read), "C14/C05: try_recover fails only with end of input or a read error");
            kani::cover!(true, "end of input reached");
        }
    }
    core::mem::forget(r);
    core::mem::forget(it);
}

#[kani::proof]
#[kani::unwind(10)]
#[kani::stub(<core::io::CustomOwner as core::ops::Drop>::drop, stubs::noop_custom_owner_drop)]
#[kani::stub(std::hash::RandomState::new, stubs::fixed_random_state)]
fn c14_recover_arbitrary_3() {
    recover_arbitrary::<3>()
}

#[kani::proof]
#[kani::unwind(10)]
#[kani::stub(<core::io::CustomOwner as core::ops::Drop>::drop, stubs::noop_custom_owner_drop)]
#[kani::stub(std::hash::RandomState::new, stubs::fixed_random_state)]
fn c14_recover_at_end() {
    // cursor already at the end of the buffered data and the source exhausted
    recover_arbitrary::<0>()
}
