mod c15;
