//! Writer units via hooks: C16b (numeric encoders invert the decoders), C09 (explicit
//! width honoured, only the size field changes; end_tag layout; deprecated call;
//! short writes), C10 (flush contract), C19 (rejected write leaves no trace), C01w
//! (sizes 2^(7k)-1 are never emitted as the reserved unknown-size pattern).
use super::stubs;
use crate::oracle::*;
use crate::specs::*;
use ebml_iterable::error::TagWriterError;
use ebml_iterable::tools;
use ebml_iterable::verif_hooks::EBMLSize;
use ebml_iterable::{TagWriter, WriteOptions};
use std::io::Write;

pub const SINK: usize = 48;

/// Destination that accepts at most `per_write` bytes per call and records them.
pub struct Sink {
    pub data: [u8; SINK],
    pub len: usize,
    pub per_write: usize,
    pub flushes: usize,
}
impl Sink {
    pub fn new(per_write: usize) -> Self {
        Sink { data: [0; SINK], len: 0, per_write, flushes: 0 }
    }
}
impl Write for Sink {
    fn write(&mut self, buf: &[u8]) -> std::io::Result<usize> {
        let mut n = buf.len();
        if n > self.per_write {
            n = self.per_write;
        }
        if n > SINK - self.len {
            n = SINK - self.len;
        }
        let mut i = 0;
        while i < n {
            self.data[self.len + i] = buf[i];
            i += 1;
        }
        self.len += n;
        Ok(n)
    }
    fn flush(&mut self) -> std::io::Result<()> {
        self.flushes += 1;
        Ok(())
    }
}

macro_rules! wstubs {
    ($(#[$m:meta])* fn $name:ident() $body:block) => {
        #[kani::proof]
        #[kani::stub(<core::io::CustomOwner as core::ops::Drop>::drop, stubs::noop_custom_owner_drop)]
        #[kani::stub(alloc::fmt::format, stubs::empty_format)]
        #[kani::stub(<ebml_iterable::error::ToolError as core::fmt::Display>::fmt, stubs::toolerror_display)]
        $(#[$m])*
        fn $name() $body
    };
}

// ------------------------------------------------------------------ C16b / C09b numeric encoders
/// size field of width W (0 = default 1-byte form) holding `size`
fn check_size_field<const W: usize>(buf: &[u8], at: usize, size: usize) {
    let sl = if W == 0 { 1 } else { W };
    let want = ref_vint_fixed(size as u64, sl);
    let mut i = 0;
    while i < 8 {
        if i < sl {
            assert!(buf[at + i] == want[8 - sl + i], "C09/C01b: size field == payload length in exactly the requested width");
        }
        i += 1;
    }
}

/// CLASS selects the value range (1,2,4,8 = minimal payload width) so that each SAT
/// problem stays small; the four classes together cover all 2^64 values.
fn uint_writer<const W: usize, const CLASS: usize>() {
    let v: u64 = kani::any();
    kani::assume(ref_uint_width(v) == CLASS);
    let mut w = TagWriter::new(Sink::new(SINK));
    let r = w.verif_write_unsigned_int_tag::<W>(flat::U, &v);
    assert!(r.is_ok(), "C16/C09/C01/C02b: every u64 is writable");
    let width = CLASS;
    let sl = if W == 0 { 1 } else { W };
    kani::cover!(v == 0 || CLASS > 1, "reached");
    let buf = w.verif_buf();
    assert!(buf.len() == 1 + sl + width, "C16/C09/C01/C02b: unsigned payload uses the minimal 1/2/4/8-byte width");
    assert!(buf[0] == flat::U as u8, "C16/C09/C01/C02b: id first");
    check_size_field::<W>(buf, 1, width);
    let be = v.to_be_bytes();
    let mut i = 0;
    while i < 8 {
        if i < width {
            assert!(buf[1 + sl + i] == be[8 - width + i], "C16/C09/C01/C02b: unsigned payload is big-endian");
        }
        i += 1;
    }
    if W == 0 {
        // (with an explicit width only the size field differs; the payload bytes are asserted above)
        assert!(matches!(tools::arr_to_u64(&buf[1 + sl..]), Ok(d) if d == v), "C16/C09/C01/C02b: decoder inverts the unsigned encoder");
    }
    core::mem::forget(r);
    core::mem::forget(w);
}

fn int_writer<const W: usize, const CLASS: usize>() {
    let v: i64 = kani::any();
    kani::assume(ref_int_width(v) == CLASS);
    let mut w = TagWriter::new(Sink::new(SINK));
    let r = w.verif_write_signed_int_tag::<W>(flat::I, &v);
    assert!(r.is_ok(), "C16/C09/C01/C02b: every i64 is writable");
    let width = CLASS;
    let sl = if W == 0 { 1 } else { W };
    kani::cover!(v < 0, "negative value reached");
    kani::cover!(v >= 0, "non-negative value reached");
    let buf = w.verif_buf();
    assert!(buf.len() == 1 + sl + width, "C16/C09/C01/C02b: signed payload uses the minimal 1/2/4/8-byte two's-complement width");
    assert!(buf[0] == flat::I as u8, "C16/C09/C01/C02b: id first");
    check_size_field::<W>(buf, 1, width);
    let be = v.to_be_bytes();
    let mut i = 0;
    while i < 8 {
        if i < width {
            assert!(buf[1 + sl + i] == be[8 - width + i], "C16/C09/C01/C02b: signed payload is big-endian two's complement");
        }
        i += 1;
    }
    if W == 0 {
        assert!(matches!(tools::arr_to_i64(&buf[1 + sl..]), Ok(d) if d == v), "C16/C09/C01/C02b: decoder inverts the signed encoder");
    }
    core::mem::forget(r);
    core::mem::forget(w);
}

macro_rules! num_h {
    ($name:ident, $f:ident, $W:literal, $C:literal) => {
        wstubs! {
        #[kani::unwind(12)]
        fn $name() { $f::<$W, $C>() }
        }
    };
}
num_h!(c16w_uint_w0_c1, uint_writer, 0, 1);
num_h!(c16w_uint_w0_c2, uint_writer, 0, 2);
num_h!(c16w_uint_w0_c4, uint_writer, 0, 4);
num_h!(c16w_uint_w0_c8, uint_writer, 0, 8);
num_h!(c16w_int_w0_c1, int_writer, 0, 1);
num_h!(c16w_int_w0_c2, int_writer, 0, 2);
num_h!(c16w_int_w0_c4, int_writer, 0, 4);
num_h!(c16w_int_w0_c8, int_writer, 0, 8);
num_h!(c09_uint_w2_c1, uint_writer, 2, 1);
num_h!(c09_uint_w2_c2, uint_writer, 2, 2);
num_h!(c09_uint_w2_c4, uint_writer, 2, 4);
num_h!(c09_uint_w2_c8, uint_writer, 2, 8);
num_h!(c09_int_w2_c1, int_writer, 2, 1);
num_h!(c09_int_w2_c2, int_writer, 2, 2);
num_h!(c09_int_w2_c4, int_writer, 2, 4);
num_h!(c09_int_w2_c8, int_writer, 2, 8);
num_h!(c09_uint_w8_c4, uint_writer, 8, 4);
num_h!(c09_int_w8_c4, int_writer, 8, 4);

wstubs! {
#[kani::unwind(12)]
fn c16w_float() { float_writer::<0>() }
}
wstubs! {
#[kani::unwind(12)]
fn c09_float_w3() { float_writer::<3>() }
}

fn float_writer<const W: usize>() {
    let bits: u64 = kani::any();
    let v = f64::from_bits(bits);
    let mut w = TagWriter::new(Sink::new(SINK));
    let r = w.verif_write_float_tag::<W>(flat::F, &v);
    assert!(r.is_ok(), "C16/C09/C01/C02b: every f64 is writable");
    let sl = if W == 0 { 1 } else { W };
    let buf = w.verif_buf();
    assert!(buf.len() == 1 + sl + 8 && buf[0] == flat::F as u8, "C16/C09/C01/C02b: float is written as 8 bytes");
    check_size_field::<W>(buf, 1, 8);
    assert!(ref_be_u64(&buf[1 + sl..], 8) == bits, "C16/C09/C01/C02b: float payload is the IEEE-754 bit pattern, big-endian");
    assert!(matches!(tools::arr_to_f64(&buf[1 + sl..]), Ok(d) if d.to_bits() == bits), "C16/C09/C01/C02b: decoder inverts the float encoder bit for bit");
    kani::cover!(v.is_nan(), "NaN reached");
    core::mem::forget(r);
    core::mem::forget(w);
}

// ------------------------------------------------------------------ C09: id emission
wstubs! {
#[kani::unwind(12)]
fn c09_id_bytes() {
    let id: u64 = kani::any();
    kani::assume(ref_id_wellformed(id));
    let nbytes = 8 - (id.leading_zeros() as usize) / 8;
    kani::cover!(nbytes == 8, "8-byte id reached");
    kani::cover!(nbytes == 1, "1-byte id reached");
    let mut w = TagWriter::new(Sink::new(SINK));
    let r = w.verif_write_binary_tag::<0>(id, &[]);
    assert!(r.is_ok(), "C09/C01b: empty binary element is writable");
    let buf = w.verif_buf();
    assert!(buf.len() == nbytes + 1, "C09/C01b: id is emitted in exactly its own byte length");
    assert!(ref_be_u64(buf, nbytes) == id, "C09/C01b: id bytes are emitted unchanged, big-endian");
    assert!(buf[nbytes] == 0x80, "C09/C01b: empty payload has size field 0");
    core::mem::forget(r);
    core::mem::forget(w);
}
}

// ------------------------------------------------------------------ C09a / C01w / C19: end_tag
/// end_tag at a concrete shape: |prefix| = 2, |content| = CONTENT, width W (0 = shortest).
fn end_tag_shape<const W: usize, const CONTENT: usize>() {
    let pre: [u8; 2] = kani::any();
    let content: [u8; CONTENT] = kani::any();
    let mut buf = Vec::with_capacity(2 + CONTENT);
    buf.extend_from_slice(&pre);
    buf.extend_from_slice(&content);
    let mut w = TagWriter::new(Sink::new(SINK));
    w.verif_seed(vec![(tree::A, EBMLSize::Known(2), W)], buf);
    let r = w.verif_end_tag(tree::A);
    assert!(r.is_ok(), "C09/C01/C10a: closing the innermost master with a representable size succeeds");
    assert!(w.verif_open().is_empty(), "C09/C01/C10a: the master is closed");
    let out = w.verif_buf();
    let sl = if W == 0 { 1 } else { W };
    assert!(out.len() == 2 + 1 + sl + CONTENT, "C09/C01/C10a: header of id + size field of the requested width inserted");
    assert!(out[0] == pre[0] && out[1] == pre[1], "C09/C01/C10a: bytes before the master are untouched");
    assert!(out[2] == tree::A as u8, "C09/C01/C10a: id at the master's start");
    let want = ref_vint_fixed(CONTENT as u64, sl);
    let mut i = 0;
    while i < 8 {
        if i < sl {
            assert!(out[3 + i] == want[8 - sl + i], "C09/C01/C10a: size field == content length in exactly the requested width");
        }
        i += 1;
    }
    let mut j = 0;
    while j < CONTENT {
        assert!(out[3 + sl + j] == content[j], "C09/C01/C10a: content bytes unchanged and in order");
        j += 1;
    }
    kani::cover!(CONTENT == 0 || content[0] != 0, "non-zero content reached");
    core::mem::forget(r);
    core::mem::forget(w);
}

macro_rules! end_tag_h {
    ($name:ident, $W:literal, $C:literal) => {
        wstubs! {
        #[kani::unwind(14)]
        fn $name() { end_tag_shape::<$W, $C>() }
        }
    };
}
end_tag_h!(c09_end_tag_w0_c2, 0, 2);
end_tag_h!(c09_end_tag_w1_c2, 1, 2);
end_tag_h!(c09_end_tag_w2_c2, 2, 2);
end_tag_h!(c09_end_tag_w3_c2, 3, 2);
end_tag_h!(c09_end_tag_w4_c2, 4, 2);
end_tag_h!(c09_end_tag_w5_c2, 5, 2);
end_tag_h!(c09_end_tag_w6_c2, 6, 2);
end_tag_h!(c09_end_tag_w7_c2, 7, 2);
end_tag_h!(c09_end_tag_w8_c2, 8, 2);
end_tag_h!(c09_end_tag_w0_c0, 0, 0);
end_tag_h!(c09_end_tag_w8_c0, 8, 0);

// ------------------------------------------------------------------ C01w: reserved size patterns
/// Reader's view of a size field.
fn reader_size(bytes: &[u8]) -> Option<(RefSize, usize)> {
    match ref_vint_decode(bytes, bytes.len()) {
        RefVint::Val(v, l) => Some((ref_size(v, l), l)),
        _ => None,
    }
}

wstubs! {
#[kani::unwind(130)]
fn c01w_binary_len_126_128() {
    // payload lengths around 2^7-1: the size field must read back as Known(len)
    let n: usize = kani::any();
    kani::assume(n >= 126 && n <= 128);
    let payload = [0u8; 128];
    let mut w = TagWriter::new(Sink::new(SINK));
    let r = w.verif_write_binary_tag::<0>(flat::B, &payload[..n]);
    assert!(r.is_ok(), "C01/C09w: 126..128-byte payload is writable");
    let buf = w.verif_buf();
    let rs = reader_size(&buf[1..buf.len() - n]);
    kani::cover!(n == 127, "length 127 reached");
    assert!(matches!(rs, Some((RefSize::Known(s), l)) if s == n as u64 && 1 + l + n == buf.len()),
        "C01/C09w: size field of a 126..128-byte payload reads back as that known size (never the reserved all-ones pattern)");
    core::mem::forget(r);
    core::mem::forget(w);
}
}

wstubs! {
#[kani::unwind(130)]
fn c01w_end_tag_content_127() {
    let mut buf = Vec::with_capacity(127);
    buf.resize(127, 0u8);
    let mut w = TagWriter::new(Sink::new(SINK));
    w.verif_seed(vec![(tree::A, EBMLSize::Known(0), 0)], buf);
    let r = w.verif_end_tag(tree::A);
    assert!(r.is_ok(), "C01/C09w: a master with 127 content bytes can be closed");
    let out = w.verif_buf();
    let rs = reader_size(&out[1..out.len() - 127]);
    assert!(matches!(rs, Some((RefSize::Known(127), l)) if 1 + l + 127 == out.len()),
        "C01/C09w: a master with 127 content bytes is written with known size 127 (never the reserved all-ones pattern)");
    core::mem::forget(r);
    core::mem::forget(w);
}
}

// ------------------------------------------------------------------ C19: rejected writes leave no trace
/// Snapshot of the writer's observable state.
struct Snap {
    buf: [u8; 8],
    buf_len: usize,
    open_len: usize,
    open0: Option<(u64, EBMLSize, usize)>,
    open1: Option<(u64, EBMLSize, usize)>,
    dest_len: usize,
}
fn snap(w: &TagWriter<Sink>) -> Snap {
    let b = w.verif_buf();
    let mut buf = [0u8; 8];
    let mut i = 0;
    while i < 8 {
        if i < b.len() {
            buf[i] = b[i];
        }
        i += 1;
    }
    let o = w.verif_open();
    Snap { buf, buf_len: b.len(), open_len: o.len(), open0: o.get(0).copied(), open1: o.get(1).copied(), dest_len: w.get_ref().len }
}
fn same(a: &Snap, b: &Snap) -> bool {
    a.buf_len == b.buf_len && a.buf == b.buf && a.open_len == b.open_len && a.open0 == b.open0 && a.open1 == b.open1 && a.dest_len == b.dest_len
}

wstubs! {
#[kani::unwind(132)]
fn c19_binary_width1_overflow() {
    // size not representable in the requested width
    let n: usize = kani::any();
    kani::assume(n >= 126 && n <= 129);
    let payload = [0u8; 129];
    let pre: [u8; 2] = kani::any();
    let mut w = TagWriter::new(Sink::new(SINK));
    w.verif_seed(vec![(tree::ROOT, EBMLSize::Known(0), 0)], pre.to_vec());
    let before = snap(&w);
    let r = w.verif_write_binary_tag::<1>(tree::L2, &payload[..n]);
    kani::cover!(n == 127, "reserved value 127 reached");
    if n >= 127 {
        assert!(r.is_err(), "C19/C09: a size that width 1 cannot represent is rejected");
    }
    if r.is_err() {
        let after = snap(&w);
        assert!(same(&before, &after), "C19/C09: rejected explicit-width write leaves buffer, open masters and destination untouched");
    } else {
        assert!(n == 126, "C09/C01b: width 1 holds sizes up to 126");
    }
    core::mem::forget(r);
    core::mem::forget(w);
}
}

/// end_tag(other) with `other` != innermost open master.
fn end_tag_wrong_id(other: u64, inner: EBMLSize) {
    let pre: [u8; 3] = kani::any();
    let mut w = TagWriter::new(Sink::new(SINK));
    w.verif_seed(vec![(tree::ROOT, EBMLSize::Known(0), 0), (tree::A, inner, 0)], pre.to_vec());
    let before = snap(&w);
    let r = w.verif_end_tag(other);
    assert!(r.is_err(), "C19/C09: closing a master that is not the innermost open one is rejected");
    let after = snap(&w);
    assert!(same(&before, &after), "C19/C09: rejected End leaves the open masters and the buffer untouched");
    kani::cover!(pre[0] != 0, "non-zero buffered byte reached");
    core::mem::forget(r);
    core::mem::forget(w);
}

wstubs! {
#[kani::unwind(12)]
fn c19_end_tag_outer_id_inner_known() { end_tag_wrong_id(tree::ROOT, EBMLSize::Known(1)) }
}
wstubs! {
#[kani::unwind(12)]
fn c19_end_tag_outer_id_inner_unknown() { end_tag_wrong_id(tree::ROOT, EBMLSize::Unknown) }
}
wstubs! {
#[kani::unwind(12)]
fn c19_end_tag_any_id_inner_unknown() {
    let other: u64 = kani::any();
    kani::assume(other != tree::A);
    end_tag_wrong_id(other, EBMLSize::Unknown)
}
}
wstubs! {
#[kani::unwind(12)]
fn c19_end_tag_any_id_inner_known() {
    let other: u64 = kani::any();
    kani::assume(other != tree::A);
    end_tag_wrong_id(other, EBMLSize::Known(1))
}
}

wstubs! {
#[kani::unwind(12)]
fn c19_end_tag_no_open() {
    let other: u64 = kani::any();
    let mut w = TagWriter::new(Sink::new(SINK));
    let before = snap(&w);
    let r = w.verif_end_tag(other);
    assert!(r.is_err(), "C19/C09: closing with nothing open is rejected");
    let after = snap(&w);
    assert!(same(&before, &after), "C19/C09: rejected End leaves state untouched");
    core::mem::forget(r);
    core::mem::forget(w);
}
}

/// master content of N bytes that a 1-byte size field cannot describe
fn end_tag_width1_overflow<const N: usize>() {
    let buf = vec![0u8; N];
    let mut w = TagWriter::new(Sink::new(SINK));
    w.verif_seed(vec![(tree::ROOT, EBMLSize::Known(0), 1)], buf);
    let r = w.verif_end_tag(tree::ROOT);
    assert!(r.is_err(), "C19/C09: content that the requested size width cannot describe is rejected");
    assert!(w.verif_open().len() == 1 && w.verif_open()[0] == (tree::ROOT, EBMLSize::Known(0), 1), "C19/C09: rejected End leaves the master open");
    assert!(w.verif_buf().len() == N, "C19/C09: rejected End leaves the buffer untouched");
    kani::cover!(w.verif_buf().len() == N, "reached");
    core::mem::forget(r);
    core::mem::forget(w);
}
wstubs! {
#[kani::unwind(132)]
fn c19_end_tag_width1_content127() { end_tag_width1_overflow::<127>() }
}
wstubs! {
#[kani::unwind(132)]
fn c19_end_tag_width1_content128() { end_tag_width1_overflow::<128>() }
}

wstubs! {
#[kani::unwind(12)]
fn c19_unknown_size_non_master() {
    let pre: [u8; 2] = kani::any();
    let v: u64 = kani::any();
    let mut w = TagWriter::new(Sink::new(SINK));
    w.verif_seed(vec![(tree::ROOT, EBMLSize::Known(0), 0)], pre.to_vec());
    let before = snap(&w);
    let tag = TreeTag::new(tree::L1, Val::U(v));
    let r = w.write_advanced(&tag, WriteOptions::is_unknown_sized_element());
    assert!(r.is_err(), "C19/C09: unknown size on a non-master is rejected");
    let after = snap(&w);
    assert!(same(&before, &after), "C19/C09: rejected unknown-size write leaves state untouched");
    core::mem::forget(r);
    core::mem::forget(w);
}
}

wstubs! {
#[kani::unwind(12)]
fn c19_raw_malformed_id() {
    let pre: [u8; 2] = kani::any();
    let id: u64 = kani::any();
    kani::assume(Tree::ty(id).is_none() && !ref_id_wellformed(id));
    let mut w = TagWriter::new(Sink::new(SINK));
    w.verif_seed(vec![(tree::ROOT, EBMLSize::Known(0), 0)], pre.to_vec());
    let before = snap(&w);
    let tag = TreeTag::new(id, Val::Raw(&[1, 2]));
    let r = w.write(&tag);
    assert!(matches!(r, Err(TagWriterError::TagIdError(e)) if e == id), "C19/C09: a raw tag with a malformed id is rejected with the id error");
    let after = snap(&w);
    assert!(same(&before, &after), "C19/C09: rejected raw tag leaves state untouched");
    kani::cover!(id == 1, "id 1 reached");
    kani::cover!(id >= 1 << 63, "id >= 2^63 reached");
    core::mem::forget(r);
    core::mem::forget(w);
}
}

wstubs! {
#[kani::unwind(10)]
fn c19_full_invalid_child() {
    // Full master whose second child is not allowed under it (L3 belongs under Root/A/B)
    let v: u64 = kani::any();
    let u: u64 = kani::any();
    let pre: [u8; 2] = kani::any();
    let mut w = TagWriter::new(Sink::new(SINK));
    // an enclosing known-size master keeps everything in the working buffer
    w.verif_seed(vec![(tree::ROOT, EBMLSize::Known(0), 0)], pre.to_vec());
    let before = snap(&w);
    let tag = TreeTag::full(tree::A, vec![TreeTag::new(tree::L3, Val::U(u))]);
    let _ = v;
    let r = w.write(&tag);
    assert!(matches!(r, Err(TagWriterError::UnexpectedTag { tag_id, .. }) if tag_id == tree::L3), "C19/C09: Full master with a misplaced child is rejected with the child's id");
    let after = snap(&w);
    assert!(same(&before, &after), "C19/C09: rejected Full master leaves no open master and no bytes behind");
    kani::cover!(u > 0xFFFF_FFFF, "8-byte child value reached");
    core::mem::forget(r);
    core::mem::forget(w);
}
}

// ------------------------------------------------------------------ C09b: binary / utf8 with explicit width
fn bytes_writer<const W: usize, const UTF8: bool>() {
    let n: usize = kani::any();
    kani::assume(n <= 3);
    let mut payload: [u8; 3] = kani::any();
    if UTF8 {
        // ASCII is valid UTF-8; the writer copies bytes and never looks at them
        payload[0] &= 0x7F;
        payload[1] &= 0x7F;
        payload[2] &= 0x7F;
    }
    let pre: [u8; 2] = kani::any();
    let mut w = TagWriter::new(Sink::new(SINK));
    w.verif_seed(vec![(flat::M, EBMLSize::Known(0), 0)], pre.to_vec());
    let r = if UTF8 {
        w.verif_write_utf8_tag::<W>(flat::S, core::str::from_utf8(&payload[..n]).unwrap())
    } else {
        w.verif_write_binary_tag::<W>(flat::B2, &payload[..n])
    };
    assert!(r.is_ok(), "C09/C01b: small payload is writable in every width");
    let sl = if W == 0 { 1 } else { W };
    let idl = if UTF8 { 1 } else { 2 };
    let buf = w.verif_buf();
    kani::cover!(n == 0, "empty payload reached");
    kani::cover!(n == 3, "3-byte payload reached");
    assert!(buf.len() == 2 + idl + sl + n, "C09/C01b: element appended after the buffered bytes: id, size field of the requested width, payload");
    assert!(buf[0] == pre[0] && buf[1] == pre[1], "C10: earlier buffered bytes are untouched");
    if UTF8 {
        assert!(buf[2] == flat::S as u8, "C09/C01b: id emitted unchanged");
    } else {
        assert!(buf[2] == 0x40 && buf[3] == 0x87, "C09/C01b: 2-byte id emitted unchanged");
    }
    check_size_field::<W>(buf, 2 + idl, n);
    let mut i = 0;
    while i < 3 {
        if i < n {
            assert!(buf[2 + idl + sl + i] == payload[i], "C09/C01b: payload bytes emitted unchanged and in order");
        }
        i += 1;
    }
    assert!(w.get_ref().len == 0, "C10: nothing is handed over while a known-size master is open");
    core::mem::forget(r);
    core::mem::forget(w);
}
macro_rules! bytes_h {
    ($name:ident, $W:literal, $U:literal) => {
        wstubs! {
        #[kani::unwind(12)]
        fn $name() { bytes_writer::<$W, $U>() }
        }
    };
}
bytes_h!(c09_binary_w0, 0, false);
bytes_h!(c09_binary_w1, 1, false);
bytes_h!(c09_binary_w4, 4, false);
bytes_h!(c09_binary_w8, 8, false);
bytes_h!(c09_utf8_w0, 0, true);
bytes_h!(c09_utf8_w2, 2, true);

/// utf8 payload of N bytes with a 1-byte size field (N concrete: a symbolic length makes
/// UTF-8 handling of a 129-byte buffer explode)
fn utf8_width1<const N: usize>() {
    let payload = [b'a'; N];
    let pre: [u8; 2] = kani::any();
    let mut w = TagWriter::new(Sink::new(SINK));
    w.verif_seed(vec![(tree::ROOT, EBMLSize::Known(0), 0)], pre.to_vec());
    let before = snap(&w);
    let text = unsafe { core::str::from_utf8_unchecked(&payload) };
    let r = w.verif_write_utf8_tag::<1>(flat::S, text);
    kani::cover!(pre[0] != 0, "non-zero buffered byte reached");
    if N >= 127 {
        assert!(r.is_err(), "C19/C09: a size that width 1 cannot represent is rejected");
        let after = snap(&w);
        assert!(same(&before, &after), "C19/C09: rejected explicit-width utf8 write leaves buffer, open masters and destination untouched");
    } else {
        assert!(r.is_ok(), "C09/C01b: width 1 holds sizes up to 126");
        assert!(w.verif_buf().len() == 2 + 2 + N && w.verif_buf()[2] == flat::S as u8 && w.verif_buf()[3] == 0x80 | N as u8, "C09/C01b: id and 1-byte size field");
    }
    core::mem::forget(r);
    core::mem::forget(w);
}
wstubs! {
#[kani::unwind(132)]
fn c19_utf8_width1_len127() { utf8_width1::<127>() }
}
wstubs! {
#[kani::unwind(132)]
fn c19_utf8_width1_len126() { utf8_width1::<126>() }
}

// ------------------------------------------------------------------ C09b: width dispatch of the public API
wstubs! {
#[kani::unwind(12)]
fn c09_width_dispatch() {
    let wd: usize = kani::any();
    kani::assume(wd >= 1 && wd <= 8);
    let mut w = TagWriter::new(Sink::new(SINK));
    // a global element (allowed under any master) inside an open known-size master, so the bytes stay buffered
    w.verif_seed(vec![(tree::ROOT, EBMLSize::Known(0), 0)], Vec::new());
    let tag = TreeTag::new(tree::VOID, Val::B(&[]));
    let r = w.write_advanced(&tag, WriteOptions::set_size_byte_count(wd));
    assert!(r.is_ok(), "C09/C01b: empty binary element is writable with every size width");
    let buf = w.verif_buf();
    assert!(buf.len() == 1 + wd, "C09/C01b: the requested size width is honoured exactly by the public API");
    assert!(buf[0] == tree::VOID as u8, "C09/C01b: id emitted unchanged");
    let want = ref_vint_fixed(0, wd);
    let mut i = 0;
    while i < 8 {
        if i < wd {
            assert!(buf[1 + i] == want[8 - wd + i], "C09/C01b: size field of the requested width encodes 0");
        }
        i += 1;
    }
    kani::cover!(wd == 8, "width 8 reached");
    kani::cover!(wd == 1, "width 1 reached");
    core::mem::forget(r);
    core::mem::forget(w);
}
}

// ------------------------------------------------------------------ C09c: deprecated unknown-size call == option-based call
wstubs! {
#[kani::unwind(12)]
#[allow(deprecated)]
fn c09_unknown_size_equivalence() {
    let pre: [u8; 2] = kani::any();
    let outer_known: bool = kani::any();
    let outer = if outer_known { EBMLSize::Known(0) } else { EBMLSize::Unknown };
    let mut a = TagWriter::new(Sink::new(SINK));
    let mut b = TagWriter::new(Sink::new(SINK));
    a.verif_seed(vec![(tree::ROOT, outer, 0)], pre.to_vec());
    b.verif_seed(vec![(tree::ROOT, outer, 0)], pre.to_vec());
    let tag = TreeTag::start(tree::A);
    let ra = a.write_unknown_size(&tag);
    let rb = b.write_advanced(&tag, WriteOptions::is_unknown_sized_element());
    assert!(ra.is_ok() == rb.is_ok(), "C09c: deprecated and option-based unknown-size calls agree on success");
    let (sa, sb) = (snap(&a), snap(&b));
    assert!(same(&sa, &sb), "C09c: deprecated and option-based unknown-size calls leave identical writer state");
    if ra.is_ok() {
        let buf = a.verif_buf();
        assert!(buf.len() >= 2 + 2 && buf[0] == pre[0] && buf[1] == pre[1] && buf[2] == tree::A as u8, "C09c: unknown-size start = buffered bytes, then the id, then a size field");
        assert!(matches!(reader_size(&buf[3..]), Some((RefSize::Unknown, _))), "C09c: the size field reads as unknown size (all value bits one)");
        assert!(a.verif_open().len() == 2 && a.verif_open()[1].0 == tree::A && a.verif_open()[1].1 == EBMLSize::Unknown, "C09c: the master is open with unknown size");
    }
    kani::cover!(ra.is_ok(), "accepted reached");
    core::mem::forget(ra);
    core::mem::forget(rb);
    core::mem::forget(a);
    core::mem::forget(b);
}
}

// ------------------------------------------------------------------ C09d: short writes of the destination
fn flush_short_writes<const K: usize>() {
    flush_short_writes_n::<K>(None)
}

/// `fixed`: concrete number of buffered bytes (keeps the witness extraction of a failure cheap)
fn flush_short_writes_n<const K: usize>(fixed: Option<usize>) {
    let content: [u8; 7] = kani::any();
    let n: usize = match fixed {
        Some(n) => n,
        None => kani::any(),
    };
    kani::assume(n <= 7);
    let mut w = TagWriter::new(Sink::new(K));
    w.verif_seed(Vec::new(), content[..n].to_vec());
    let r = w.verif_private_flush();
    assert!(r.is_ok(), "C09/C10d: flushing into an accepting destination succeeds");
    assert!(w.verif_buf().is_empty(), "C09/C10d: the working buffer is emptied");
    let d = w.get_ref();
    assert!(d.len == n, "C09/C10d: every buffered byte is delivered exactly once however short the writes are");
    let mut i = 0;
    while i < 7 {
        if i < n {
            assert!(d.data[i] == content[i], "C09/C10d: delivered bytes equal the buffered bytes in order");
        }
        i += 1;
    }
    kani::cover!(fixed.is_some() || n == 7, "7 bytes through short writes reached");
    core::mem::forget(r);
    core::mem::forget(w);
}
wstubs! {
#[kani::unwind(10)]
fn c09_flush_short_1() { flush_short_writes::<1>() }
}
wstubs! {
#[kani::unwind(10)]
fn c09_flush_short_3() { flush_short_writes::<3>() }
}
wstubs! {
#[kani::unwind(10)]
fn c09_flush_short_2_of_5() { flush_short_writes_n::<2>(Some(5)) }
}

// ------------------------------------------------------------------ C10: flush contract of a public write
/// public write of a global binary leaf (Void, allowed anywhere) with 0..2 masters open
fn stream_contract(open: Vec<(u64, EBMLSize, usize)>, any_known: bool) {
    let payload: [u8; 2] = kani::any();
    let pre: [u8; 3] = kani::any();
    let leaked: &'static [u8] = Box::leak(Box::new(payload));
    let mut w = TagWriter::new(Sink::new(SINK));
    // Inv_w: with no known-size master open the working buffer is empty
    let buffered = if any_known { pre.to_vec() } else { Vec::new() };
    let nbuf = buffered.len();
    w.verif_seed(open, buffered);
    let tag = TreeTag::new(tree::VOID, Val::B(leaked));
    let r = w.write(&tag);
    assert!(r.is_ok(), "C10: a global element is accepted under any open masters");
    let d = w.get_ref();
    if any_known {
        assert!(d.len == 0, "C10: while a known-size master is open none of its content is handed over");
        let buf = w.verif_buf();
        assert!(buf.len() == nbuf + 4 && buf[0] == pre[0] && buf[1] == pre[1] && buf[2] == pre[2], "C10: buffered bytes are kept and only extended");
        assert!(buf[3] == tree::VOID as u8 && buf[4] == 0x82 && buf[5] == payload[0] && buf[6] == payload[1], "C10: the element is appended");
    } else {
        assert!(w.verif_buf().is_empty(), "C10: with no known-size master open nothing stays buffered after a successful write");
        assert!(d.len == 4 && d.data[0] == tree::VOID as u8 && d.data[1] == 0x82 && d.data[2] == payload[0] && d.data[3] == payload[1],
            "C10: every byte of the accepted element has been handed over");
    }
    kani::cover!(payload[0] != 0, "non-zero payload reached");
    core::mem::forget(r);
    core::mem::forget(w);
}
wstubs! {
#[kani::unwind(12)]
fn c10_stream_no_master() { stream_contract(Vec::new(), false) }
}
wstubs! {
#[kani::unwind(12)]
fn c10_stream_unknown_master() { stream_contract(vec![(tree::ROOT, EBMLSize::Unknown, 0)], false) }
}
wstubs! {
#[kani::unwind(12)]
fn c10_stream_known_master() { stream_contract(vec![(tree::ROOT, EBMLSize::Known(0), 0)], true) }
}
wstubs! {
#[kani::unwind(12)]
fn c10_stream_unknown_in_known() { stream_contract(vec![(tree::ROOT, EBMLSize::Known(0), 0), (tree::A, EBMLSize::Unknown, 0)], true) }
}
wstubs! {
#[kani::unwind(12)]
fn c10_stream_known_in_unknown() { stream_contract(vec![(tree::ROOT, EBMLSize::Unknown, 0), (tree::A, EBMLSize::Known(0), 0)], true) }
}

// ------------------------------------------------------------------ C10: write_raw and flush()
/// write_raw under [Root known-size, A unknown-size]: nothing may be handed over while Root is open
fn raw_stream_contract(open: Vec<(u64, EBMLSize, usize)>, any_known: bool) {
    let payload: [u8; 2] = kani::any();
    let pre: [u8; 3] = kani::any();
    let mut w = TagWriter::new(Sink::new(SINK));
    let buffered = if any_known { pre.to_vec() } else { Vec::new() };
    let nbuf = buffered.len();
    w.verif_seed(open, buffered);
    let r = w.write_raw(tree::VOID, &payload);
    assert!(r.is_ok(), "C10: a raw element is writable");
    let d = w.get_ref();
    if any_known {
        assert!(d.len == 0, "C10: while a known-size master is open (at any depth) none of its content is handed over, also for raw writes");
        assert!(w.verif_buf().len() == nbuf + 4, "C10: the raw element stays buffered");
    } else {
        assert!(w.verif_buf().is_empty() && d.len == 4 && d.data[0] == tree::VOID as u8 && d.data[1] == 0x82 && d.data[2] == payload[0] && d.data[3] == payload[1],
            "C10: with no known-size master open the raw element is handed over completely");
    }
    kani::cover!(payload[1] != 0, "non-zero payload reached");
    core::mem::forget(r);
    core::mem::forget(w);
}
wstubs! {
#[kani::unwind(12)]
fn c10_raw_unknown_in_known() { raw_stream_contract(vec![(tree::ROOT, EBMLSize::Known(0), 0), (tree::A, EBMLSize::Unknown, 0)], true) }
}
wstubs! {
#[kani::unwind(12)]
fn c10_raw_unknown_only() { raw_stream_contract(vec![(tree::ROOT, EBMLSize::Unknown, 0)], false) }
}

/// a known-size master was started and nothing written yet: flush() must still close it and deliver its header
fn flush_closes_empty_master(known_outer: bool) {
    let mut w = TagWriter::new(Sink::new(SINK));
    if known_outer {
        w.verif_seed(vec![(tree::ROOT, EBMLSize::Known(0), 0)], Vec::new());
    } else {
        w.verif_seed(vec![(tree::ROOT, EBMLSize::Unknown, 0), (tree::A, EBMLSize::Known(0), 0)], Vec::new());
    }
    let r = w.flush();
    assert!(r.is_ok(), "C10: flush succeeds");
    assert!(w.verif_open().is_empty(), "C10: flush() closes all open masters");
    assert!(w.verif_buf().is_empty(), "C10: flush() leaves nothing buffered");
    let d = w.get_ref();
    let id = if known_outer { tree::ROOT } else { tree::A };
    assert!(d.len == 2 && d.data[0] == id as u8 && d.data[1] == 0x80, "C10: flush() delivers the header of a master that was opened but is still empty");
    kani::cover!(d.len == 2, "header delivered reached");
    core::mem::forget(r);
    core::mem::forget(w);
}
wstubs! {
#[kani::unwind(12)]
fn c10_flush_closes_empty_root() { flush_closes_empty_master(true) }
}
wstubs! {
#[kani::unwind(12)]
fn c10_flush_closes_empty_inner() { flush_closes_empty_master(false) }
}

// ------------------------------------------------------------------ C11c: the writer validates unknown-size starts too
/// A master written with unknown size (option-based or deprecated call) under a chain its declared path
/// does not allow must be rejected like any other misplaced tag, leaving no trace.
fn unknown_start_misplaced(deprecated: bool) {
    let pre: [u8; 2] = kani::any();
    let mut w = TagWriter::new(Sink::new(SINK));
    // A is declared as Root/A; Root2 is open instead
    w.verif_seed(vec![(tree::ROOT2, EBMLSize::Known(0), 0)], pre.to_vec());
    let before = snap(&w);
    let tag = TreeTag::start(tree::A);
    #[allow(deprecated)]
    let r = if deprecated { w.write_unknown_size(&tag) } else { w.write_advanced(&tag, WriteOptions::is_unknown_sized_element()) };
    assert!(matches!(r, Err(TagWriterError::UnexpectedTag { tag_id, .. }) if tag_id == tree::A), "C11/C09c: an unknown-size master start is validated against the open chain like any other tag");
    let after = snap(&w);
    assert!(same(&before, &after), "C19/C11: the rejected unknown-size start leaves no trace");
    kani::cover!(pre[0] != 0, "non-zero buffered byte reached");
    core::mem::forget(r);
    core::mem::forget(w);
}
wstubs! {
#[kani::unwind(12)]
fn c11_writer_unknown_start_misplaced() { unknown_start_misplaced(false) }
}
wstubs! {
#[kani::unwind(12)]
fn c11_writer_unknown_start_misplaced_deprecated() { unknown_start_misplaced(true) }
}
wstubs! {
#[kani::unwind(12)]
fn c11_writer_known_start_misplaced() {
    // the same for an ordinary (known-size) start and for a leaf: rejected, no trace; a well-placed one is accepted
    let pre: [u8; 2] = kani::any();
    let which: u8 = kani::any();
    kani::assume(which < 3);
    let mut w = TagWriter::new(Sink::new(SINK));
    w.verif_seed(vec![(tree::ROOT2, EBMLSize::Known(0), 0)], pre.to_vec());
    let before = snap(&w);
    let tag = match which {
        0 => TreeTag::start(tree::A),                    // Root/A under Root2: misplaced
        1 => TreeTag::new(tree::L1, Val::U(7)),          // Root/L1 under Root2: misplaced
        _ => TreeTag::new(tree::CRC, Val::B(&[])),       // (1-)/Crc under one master: allowed
    };
    let r = w.write(&tag);
    if which < 2 {
        assert!(matches!(r, Err(TagWriterError::UnexpectedTag { .. })), "C11c: the writer rejects a tag whose declared path does not match the open chain");
        let after = snap(&w);
        assert!(same(&before, &after), "C19/C11: a rejected misplaced tag leaves no trace");
    } else {
        assert!(r.is_ok(), "C11c: a global element within its depth range is accepted");
    }
    kani::cover!(which == 2, "accepted global reached");
    core::mem::forget(r);
    core::mem::forget(w);
}
}
