//! Hand-written specifications used to instantiate the generic library code (T1).
//! The tag type is `Copy` and drop-free (payloads are leaked `&'static` data): a
//! derive-style enum holding `Master<T>`/`Vec` has recursive drop glue that CBMC
//! cannot get through. The library touches tags only through the two traits.
use core::marker::PhantomData;
use ebml_iterable::specs::{EbmlSpecification, EbmlTag, Master, PathPart, TagDataType};

pub trait SpecTable: Copy + 'static {
    fn ty(id: u64) -> Option<TagDataType>;
    fn path(id: u64) -> &'static [PathPart];
}

#[derive(Copy, Clone)]
pub enum Val<S: SpecTable> {
    M(&'static Master<Tag<S>>),
    U(u64),
    I(i64),
    F(f64),
    S(&'static str),
    B(&'static [u8]),
    Raw(&'static [u8]),
}

#[derive(Copy, Clone)]
pub struct Tag<S: SpecTable> {
    pub id: u64,
    pub val: Val<S>,
    _s: PhantomData<S>,
}

impl<S: SpecTable> Tag<S> {
    pub const START: &'static Master<Tag<S>> = &Master::Start;
    pub const END: &'static Master<Tag<S>> = &Master::End;
    pub fn new(id: u64, val: Val<S>) -> Self {
        Tag { id, val, _s: PhantomData }
    }
    pub fn start(id: u64) -> Self {
        Self::new(id, Val::M(Self::START))
    }
    pub fn end(id: u64) -> Self {
        Self::new(id, Val::M(Self::END))
    }
    pub fn full(id: u64, children: Vec<Tag<S>>) -> Self {
        Self::new(id, Val::M(Box::leak(Box::new(Master::Full(children)))))
    }
    pub fn is_start(&self) -> bool {
        matches!(self.val, Val::M(Master::Start))
    }
    pub fn is_end(&self) -> bool {
        matches!(self.val, Val::M(Master::End))
    }
}

impl<S: SpecTable> EbmlSpecification<Tag<S>> for Tag<S> {
    fn get_tag_data_type(id: u64) -> Option<TagDataType> {
        S::ty(id)
    }
    fn get_path_by_id(id: u64) -> &'static [PathPart] {
        S::path(id)
    }
    fn get_unsigned_int_tag(id: u64, data: u64) -> Option<Tag<S>> {
        if S::ty(id) == Some(TagDataType::UnsignedInt) { Some(Tag::new(id, Val::U(data))) } else { None }
    }
    fn get_signed_int_tag(id: u64, data: i64) -> Option<Tag<S>> {
        if S::ty(id) == Some(TagDataType::Integer) { Some(Tag::new(id, Val::I(data))) } else { None }
    }
    fn get_utf8_tag(id: u64, data: String) -> Option<Tag<S>> {
        if S::ty(id) == Some(TagDataType::Utf8) { Some(Tag::new(id, Val::S(Box::leak(data.into_boxed_str())))) } else { None }
    }
    fn get_binary_tag(id: u64, data: &[u8]) -> Option<Tag<S>> {
        if S::ty(id) == Some(TagDataType::Binary) { Some(Tag::new(id, Val::B(Box::leak(data.to_vec().into_boxed_slice())))) } else { None }
    }
    fn get_float_tag(id: u64, data: f64) -> Option<Tag<S>> {
        if S::ty(id) == Some(TagDataType::Float) { Some(Tag::new(id, Val::F(data))) } else { None }
    }
    fn get_master_tag(id: u64, data: Master<Tag<S>>) -> Option<Tag<S>> {
        if S::ty(id) == Some(TagDataType::Master) {
            let m: &'static Master<Tag<S>> = match data {
                Master::Start => Self::START,
                Master::End => Self::END,
                full => Box::leak(Box::new(full)),
            };
            Some(Tag::new(id, Val::M(m)))
        } else {
            None
        }
    }
    fn get_raw_tag(id: u64, data: &[u8]) -> Tag<S> {
        Tag::new(id, Val::Raw(Box::leak(data.to_vec().into_boxed_slice())))
    }
}

impl<S: SpecTable> EbmlTag<Tag<S>> for Tag<S> {
    fn get_id(&self) -> u64 {
        self.id
    }
    fn as_unsigned_int(&self) -> Option<&u64> {
        match &self.val { Val::U(v) => Some(v), _ => None }
    }
    fn as_signed_int(&self) -> Option<&i64> {
        match &self.val { Val::I(v) => Some(v), _ => None }
    }
    fn as_utf8(&self) -> Option<&str> {
        match &self.val { Val::S(v) => Some(v), _ => None }
    }
    fn as_binary(&self) -> Option<&[u8]> {
        match &self.val { Val::B(v) => Some(v), Val::Raw(v) => Some(v), _ => None }
    }
    fn as_float(&self) -> Option<&f64> {
        match &self.val { Val::F(v) => Some(v), _ => None }
    }
    fn as_master(&self) -> Option<&Master<Tag<S>>> {
        match &self.val { Val::M(m) => Some(*m), _ => None }
    }
}

macro_rules! spec_table {
    ($name:ident { $($id:literal => $ty:ident),* $(,)? } paths { $($pid:literal => [$($p:expr),*]),* $(,)? }) => {
        #[derive(Copy, Clone)]
        pub struct $name;
        impl SpecTable for $name {
            fn ty(id: u64) -> Option<TagDataType> {
                match id { $($id => Some(TagDataType::$ty),)* _ => None }
            }
            // only ids with a non-empty path get an arm, so that root-only specs return one
            // constant slice (keeps the path length foldable for CBMC)
            fn path(id: u64) -> &'static [PathPart] {
                match id { $($pid => &[$($p),*],)* _ => &[] }
            }
        }
    };
}
use PathPart::{Global, Id};

// Flat: every element is a root-level element (no hierarchy interplay).
pub mod flat {
    pub const M: u64 = 0x81;
    pub const U: u64 = 0x82;
    pub const I: u64 = 0x83;
    pub const F: u64 = 0x84;
    pub const S: u64 = 0x85;
    pub const B: u64 = 0x86;
    pub const B2: u64 = 0x4087; // 2-byte id
    pub const M4: u64 = 0x1A45DFA3; // 4-byte id
}
spec_table!(Flat {
    0x81 => Master, 0x82 => UnsignedInt, 0x83 => Integer, 0x84 => Float, 0x85 => Utf8, 0x86 => Binary,
    0x4087 => Binary, 0x1A45DFA3 => Master,
} paths {});

// Tree: three nested masters, a second root, a sibling master, leaves at each level, two globals.
pub mod tree {
    pub const ROOT: u64 = 0x81;
    pub const A: u64 = 0x82; // Root/A
    pub const B: u64 = 0x83; // Root/A/B
    pub const ROOT2: u64 = 0x84;
    pub const L1: u64 = 0x85; // Root/L1 uint
    pub const L2: u64 = 0x86; // Root/A/L2 binary
    pub const L3: u64 = 0x87; // Root/A/B/L3 uint
    pub const A2: u64 = 0x88; // Root/A2 master (sibling of A)
    pub const C: u64 = 0x89; // Root/A/B/C master (4th level: has a non-direct, non-root ancestor)
    pub const VOID: u64 = 0xEC; // (-)/Void
    pub const CRC: u64 = 0xBF; // (1-)/Crc
    pub const ALL: [u64; 11] = [ROOT, A, B, ROOT2, L1, L2, L3, A2, C, VOID, CRC];
}
spec_table!(Tree {
    0x81 => Master, 0x82 => Master, 0x83 => Master, 0x84 => Master,
    0x85 => UnsignedInt, 0x86 => Binary, 0x87 => UnsignedInt, 0x88 => Master, 0x89 => Master,
    0xEC => Binary, 0xBF => Binary,
} paths {
    0x82 => [Id(0x81)], 0x83 => [Id(0x81), Id(0x82)],
    0x85 => [Id(0x81)], 0x86 => [Id(0x81), Id(0x82)], 0x87 => [Id(0x81), Id(0x82), Id(0x83)],
    0x88 => [Id(0x81)], 0x89 => [Id(0x81), Id(0x82), Id(0x83)],
    0xEC => [Global((None, None))], 0xBF => [Global((Some(1), None))],
});

// Mini: one root master with one unsigned child.
spec_table!(Mini { 0x81 => Master, 0x82 => UnsignedInt } paths { 0x82 => [Id(0x81)] });

pub type FlatTag = Tag<Flat>;
pub type TreeTag = Tag<Tree>;
pub type MiniTag = Tag<Mini>;

/// OnePath: ids 0x81..=0x84 are masters and 0x90 is the probe element; the probe's
/// declared path is set by the harness (symbolic), the masters are roots.
pub static mut ONEPATH: [PathPart; 4] = [PathPart::Id(0); 4];
pub static mut ONEPATH_LEN: usize = 0;
#[derive(Copy, Clone)]
pub struct OnePath;
impl SpecTable for OnePath {
    fn ty(id: u64) -> Option<TagDataType> {
        match id {
            0x81..=0x84 => Some(TagDataType::Master),
            0x90 => Some(TagDataType::Binary),
            _ => None,
        }
    }
    #[allow(static_mut_refs)]
    fn path(id: u64) -> &'static [PathPart] {
        if id == 0x90 { unsafe { &ONEPATH[..ONEPATH_LEN] } } else { &[] }
    }
}
pub type OnePathTag = Tag<OnePath>;
