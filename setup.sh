#!/bin/bash
# Builds the framework offline from files on disk: oracle self-tests + one warm
# cargo-kani build of the harness crate (dependencies compiled from /repo).
set -e
cd "$(dirname "$0")"
export CARGO_NET_OFFLINE=true
mkdir -p .work/logs evidence
(cd harness && cargo test --offline 2>&1 | tail -3)
echo setup ok
