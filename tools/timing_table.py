#!/usr/bin/env python3
"""Prints the markdown table of DESIGN 12a from evidence/*.json (cold quick-tier runs)."""
import json, glob, os
V = os.path.dirname(os.path.dirname(os.path.abspath(__file__)))
print("| property | harnesses | CBMC checks discharged | covers sat/total | slowest harness (s) | sum of CBMC time (s) | wall (s) | from cache |")
print("|---|---|---|---|---|---|---|---|")
for f in sorted(glob.glob(os.path.join(V, "evidence", "C*.json"))):
    e = json.load(open(f))
    c = e["coverage"]
    s = c["samples"]
    slow = max(s, key=lambda x: x.get("verification_time_s") or 0)
    cached = sum(1 for x in s if x.get("from_cache"))
    print("| %s | %d | %d/%d | %d/%d | %s %.0f | %.0f | %.0f | %d |" % (e["property_id"], len(s), c["discharged"], c["obligations"], c["covers_satisfied"], c["covers_total"],
          slow["harness"], slow.get("verification_time_s") or 0, c["cbmc_seconds"], e["wall_s"], cached))
