#!/usr/bin/env python3
"""binary-safe replace: bedit.py FILE OLDFILE NEWFILE — replaces exactly one occurrence,
converting LF in old/new to the file's line ending (CRLF files stay CRLF)."""
import sys
f, o, n = sys.argv[1:4]
data = open(f, 'rb').read()
old = open(o, 'rb').read().rstrip(b'\n')
new = open(n, 'rb').read().rstrip(b'\n')
if b'\r\n' in data:
    old = old.replace(b'\r\n', b'\n').replace(b'\n', b'\r\n')
    new = new.replace(b'\r\n', b'\n').replace(b'\n', b'\r\n')
assert data.count(old) == 1, "old text occurs %d times" % data.count(old)
open(f, 'wb').write(data.replace(old, new))
