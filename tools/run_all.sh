#!/bin/bash
# usage: tools/run_all.sh quick|thorough PROP...   (runs sequentially, prints one line per property)
tier=$1; shift
cd "$(dirname "$0")/.."
for p in "$@"; do
  s=$(date +%s)
  python3 check.py $p --tier $tier > .work/run_$p.out 2>&1
  rc=$?
  echo "$p rc=$rc $(( $(date +%s) - s ))s $(tail -1 .work/run_$p.out | cut -c1-150)"
done
