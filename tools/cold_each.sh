#!/bin/bash
# cold (no cache) quick run of each given property on its own: the wall time a quick check has when nothing is shared
cd "$(dirname "$0")/.."
for p in "$@"; do
  s=$(date +%s); python3 check.py $p --tier quick --no-cache > .work/cold_$p.out 2>&1; rc=$?
  echo "$p rc=$rc $(( $(date +%s) - s ))s $(tail -1 .work/cold_$p.out | cut -c1-120)"
done
