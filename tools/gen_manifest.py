#!/usr/bin/env python3
"""Regenerates /verif/MANIFEST.json from harnesses.py + props_meta.py."""
import json, os, sys
V = os.path.dirname(os.path.dirname(os.path.abspath(__file__)))
sys.path.insert(0, V)
import harnesses as H
import props_meta as M

checks = []
for pid in sorted(M.CLAIMED):
    m = M.CLAIMED[pid]
    hs = [h for h in H.HARNESSES if pid in h["props"]]
    assert hs, pid
    checks.append({
        "property_id": pid,
        "quick_cmd": "python3 check.py %s --tier quick" % pid,
        "thorough_cmd": "python3 check.py %s --tier thorough" % pid,
        "evidence_file": "/verif/evidence/%s.json" % pid,
        "replay_cmd_template": "python3 check.py --replay {path}",
        "engine": "kani-cbmc",
        "level_claimed": {"category": "other", "text": m["text"], "design_ref": m["design_ref"]},
        "level_note": m["note"],
        "technique": m["technique"],
    })
man = {
    "version": 1,
    "setup_cmd": "bash setup.sh",
    "hooks": {
        "guard": "ebml_iterable_verif",
        "enable": "RUSTFLAGS=\"--cfg ebml_iterable_verif\" (set by check.py for every cargo kani run; the harness crate has a path dependency on /repo)",
        "baseline_off_cmd": "cd /repo && cargo test --workspace --no-fail-fast --offline",
        "source_commits": M.HOOK_COMMITS,
        "add_only": True,
    },
    "engines": [{
        "name": "kani-cbmc", "path": "/verif/check.py",
        "serves_properties": sorted(M.CLAIMED),
        "kind_free_text": "bounded symbolic execution of the real Rust code (Kani 0.68 -> CBMC 6.11 -> CaDiCaL); harness crate /verif/harness depends on /repo by path, so every run recompiles the current working tree",
    }],
    "checks": checks,
    "not_applicable": [{"property_id": k, "reason": v} for k, v in sorted(M.NOT_APPLICABLE.items())],
    "notes": M.NOTES,
}
json.dump(man, open(os.path.join(V, "MANIFEST.json"), "w"), indent=1)
print("claimed", sorted(M.CLAIMED), "n/a", sorted(M.NOT_APPLICABLE))
