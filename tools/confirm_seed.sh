#!/bin/bash
# usage: confirm_seed.sh <dir with patch.diff + demo.rs>   -> prints CONFIRMED / REJECTED with reasons
# Confirms in a scratch worktree of /repo HEAD: (1) demo passes unpatched, (2) patched tree compiles and the
# existing suite passes, (3) demo fails patched.
d=$(realpath "$1"); id=$(basename "$d"); wt=/tmp/cf-$id
git -C /repo worktree remove --force $wt >/dev/null 2>&1; rm -rf $wt
git -C /repo worktree add -q --detach $wt HEAD || exit 3
export CARGO_TARGET_DIR=$wt/target CARGO_NET_OFFLINE=true
cd $wt
cp "$d/demo.rs" tests/seed_demo.rs
r1=$(cargo test --offline --test seed_demo 2>&1 | grep -E "^test result" | head -1)
rm tests/seed_demo.rs
git apply "$d/patch.diff" || { echo "REJECTED $id: patch does not apply"; cd /; git -C /repo worktree remove --force $wt; exit 1; }
r2=$(cargo test --workspace --no-fail-fast --offline 2>&1 | grep -E "^test result" | awk '{p+=$4; f+=$6} END {print p" passed "f" failed"}')
cp "$d/demo.rs" tests/seed_demo.rs
r3=$(cargo test --offline --test seed_demo 2>&1 | grep -E "^test result" | head -1)
cd /; git -C /repo worktree remove --force $wt
echo "$id | unpatched demo: $r1 | patched suite: $r2 | patched demo: $r3"
case "$r1" in *"ok."*) ;; *) echo "REJECTED $id: demo does not pass unpatched"; exit 1;; esac
case "$r2" in "42 passed 0 failed") ;; *) echo "REJECTED $id: suite changed ($r2)"; exit 1;; esac
case "$r3" in *FAILED*) echo "CONFIRMED $id";; *) echo "REJECTED $id: demo does not fail patched"; exit 1;; esac
