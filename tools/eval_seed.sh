#!/bin/bash
# usage: eval_seed.sh <seed-dir> <PROP> [--only h1,h2] [--tier quick]
# Applies the seed to a scratch worktree of /repo HEAD and runs check.py against it (VERIF_REPO).
d=$(realpath "$1"); id=$(basename "$d"); prop=$2; shift 2
wt=/tmp/ev-$id
git -C /repo worktree remove --force $wt >/dev/null 2>&1; rm -rf $wt
git -C /repo worktree add -q --detach $wt HEAD || exit 3
git -C $wt apply "$d/patch.diff" || { echo "patch does not apply"; git -C /repo worktree remove --force $wt; exit 3; }
cd "$(dirname "$0")/.."
s=$(date +%s)
VERIF_REPO=$wt python3 check.py $prop "$@" > .work/eval_$id.$prop.out 2>&1
rc=$?
summary="$(grep -E "VIOLATION|INCONCLUSIVE|^OK" .work/eval_$id.$prop.out | head -4 | tr '\n' ';' | cut -c1-400)"
echo "$id $prop rc=$rc $(( $(date +%s) - s ))s | $summary"
python3 - "$d" "$prop" "$rc" "$(( $(date +%s) - s ))" "$summary" "$*" <<'PY'
import json, sys, time
d, prop, rc, secs, summary, args = sys.argv[1:7]
with open(d + "/runs.jsonl", "a") as f:
    f.write(json.dumps({"property": prop, "args": args, "exit": int(rc), "seconds": int(secs), "summary": summary, "how": "patch applied to a scratch worktree of /repo HEAD; check.py run with VERIF_REPO=<worktree>", "at": time.strftime("%Y-%m-%dT%H:%M:%S")}) + "\n")
PY
git -C /repo worktree remove --force $wt
h=$(echo -n $wt | sha256sum | cut -c1-8)
rm -rf .work/harness-$h .work/slot-$h-* .work/replay-target-$h .work/logs-$h
