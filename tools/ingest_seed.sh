#!/bin/bash
# usage: ingest_seed.sh <agent out dir sN> <new id, e.g. C16-s3> <PROP> [extra demo support files...]
# copies an agent's seed into seeded/<id>/, confirms it (confirm_seed.sh) and evaluates it (eval_seed.sh, quick tier)
src=$1; id=$2; prop=$3; shift 3
cd "$(dirname "$0")/.."
mkdir -p seeded/$id
cp $src/patch.diff $src/demo.rs seeded/$id/; cp $src/note.txt seeded/$id/note.txt 2>/dev/null
tools/confirm_seed.sh seeded/$id > .work/confirm_$id.out 2>&1
tail -2 .work/confirm_$id.out
grep -q "^CONFIRMED" .work/confirm_$id.out || exit 1
tools/eval_seed.sh seeded/$id $prop --tier quick "$@"
