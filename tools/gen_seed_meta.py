#!/usr/bin/env python3
"""Writes seeded/<id>/meta.json from agent_notes.txt, runs.jsonl and the table below."""
import json, os
V = os.path.dirname(os.path.dirname(os.path.abspath(__file__)))
# seed -> (property it breaks, what it needs to manifest, which check is expected to catch it / why not)
T = {
 "C01-s1": ("C01", "UnsignedInt in 65536..=u32::MAX written with an explicit size width", "c09_uint_w2_c4 (C09/C01/C16)"),
 "C01-s2": ("C01", "two directly nested unknown-size masters ended by one following element", "NOT CAUGHT: the closing loop lives in read_next (DESIGN §11)"),
 "C03-s1": ("C03", "signed payload of 1..7 bytes whose first byte is exactly 0x80", "c16_arr_to_i64 (C16), doc_i2_i0 (C03)"),
 "C03-s2": ("C03", "payload larger than the current buffer while the cursor is past index 0 (buffer growth)", "edr_refill_cap8_len16(_at_4_8) (C04/C05)"),
 "C04-s1": ("C04", "exactly one byte left in the source after an element that consumed the whole buffer", "NOT CAUGHT by a registered check: the purpose-built harness cut_b14_then_one_byte finds it (see runs) but cannot be proved on the correct tree within 32 GB, so it is not registered"),
 "C04-s2": ("C04", "with_capacity(.., 0)", "edr_first_fill_cap0_len1, slice_u2_b1_cap0, chunk_u2_b1_cap0"),
 "C05-s1": ("C05", "try_recover() with the cursor at the end of the buffered data / exhausted source", "c14_recover_at_end, c14_recover_arbitrary_3"),
 "C05-s2": ("C05", "buffered master + EOF closing disabled + stream ending inside the master", "NOT CAUGHT: buffer_master is out of reach (C08 n/a; hang-freedom is only argued)"),
 "C09-s1": ("C09", "Master::Full written with an explicit size width >= 2", "NOT CAUGHT: Full goes through the recursive public write (DESIGN §11)"),
 "C09-s2": ("C09", "destination whose write() accepts fewer bytes than offered", "c09_flush_short_2_of_5 (the symbolic-length twins also fail, but their witness extraction is pathological)"),
 "C12-s1": ("C12", "input ending on a tag boundary with >= 2 masters open", "NOT CAUGHT: End emission at EOF (rn_eof_closes_*) needs > 60 GB in SAT (DESIGN §11)"),
 "C12-s2": ("C12", "cut leaving exactly one byte of the next tag, not yet buffered", "NOT CAUGHT by a registered check (same change as C04-s1)"),
 "C13-s1": ("C13", "OversizedTags tolerated and a declared size above the limit", "hdr_flat_full (C13/C17a)"),
 "C13-s2": ("C13", "unknown-size master between a known-size ancestor and the overrunning child", "hdr_contain_ku (added after this seed: containment on deep stacks with minimal symbolic state)"),
 "C15-s1": ("C15", "negative value at signed-vint width 8", "c15_signed_default, c15_signed_with_length, c15_read_signed_total"),
 "C15-s2": ("C15", "value with bit 63 set", "c15_is_vint"),
 "C16-s1": ("C16", "slice of length 1..7 starting with 0x80", "c16_arr_to_i64"),
 "C16-s2": ("C16", "UnsignedInt in 65536..=u32::MAX written with an explicit size width", "c09_uint_w2_c4 (tagged C16/C09/C01)"),
 "C17-s1": ("C17", "OversizedTags tolerated and a declared size above the limit", "hdr_flat_full"),
 "C17-s2": ("C17", "long stream: every refill near the buffer end grows the allocation", "edr_refill_cap16_len16_at_6_8 (C17b allocation bound)"),
 "C19-s1": ("C19", "End for a non-open id while an unknown-size master is innermost", "c19_end_tag_outer_id_inner_unknown, c19_end_tag_any_id_inner_unknown"),
 "C02-s1": ("C02", "signed Integer value in [2^31, 2^32) (read from a zero-padded 5-8 byte encoding) written back", "c16w_int_w0_c8 (tagged C16/C09/C01/C02)"),
 "C02-s2": ("C02", "unknown-size master containing a known-size master that contains a root element", "c11_vtree_root_a_uk"),
 "C06-s1": ("C06", "same change as C02-s2 / C11-s1 (three agents independently dropped the reset of the closing point on a known-size master)", "c11_vtree_root_a_uk"),
 "C06-s2": ("C06", "two nested known-size masters and a child that overruns the inner but fits the outer", "hdr_contain_kk"),
 "C07-s1": ("C07", "four nested master levels, three unknown-size, followed by a new instance of a non-direct, non-root ancestor", "c07_is_ended_by_table (after spec Tree got a 4th master level; with 3 levels every non-direct ancestor is a root, so the change was invisible)"),
 "C07-s2": ("C07", "unknown-size master as last child of a known-size master, followed by more elements", "NOT CAUGHT: close-by-size phase of read_next (rn_size_closes_* intractable)"),
 "C10-s1": ("C10", "write_raw() under [known-size, unknown-size] open masters", "c10_raw_unknown_in_known"),
 "C10-s2": ("C10", "flush()/into_inner() with an opened-but-empty known-size master and an empty buffer", "NOT CAUGHT by a registered check: c10_flush_closes_empty_master finds it (see runs) but the public flush() cannot be proved on the correct tree (out of memory), so it is not registered"),
 "C11-s1": ("C11", "same change as C02-s2", "c11_vtree_root_a_uk, c11_vtree_root_a_b_ukk"),
 "C11-s2": ("C11", "global placeholder with min >= 1 and fewer masters open than min", "c11_validate_p1_c0, c11_validate_p2_c1"),
 "C14-s1": ("C14", ">= 2 junk bytes of a long-id class close to the end of input", "NOT CAUGHT: needs >= 2 junk bytes; c14_recover_junk2 did not finish within 25 min and is not registered"),
 "C14-s2": ("C14", "run of >= 8 zero bytes before a 1-byte id", "hdr_flat_full (zero first byte accepted as id padding: assertion tagged C13/C03/C14)"),
 "C18-s1": ("C18", "easy_ebml! declaration with a placeholder (-N)", "c18_tables_d2"),
 "C18-s2": ("C18", "path of depth >= 3 whose grand-parent is not a master / misaligned", "OUTSIDE THE CLAIM: compile-error half of C18 (only rustc observes it); demo confirmed by the sub-agent only"),
 "C19-s2": ("C19", "utf8 element with explicit width and length >= 2^(7w)-1", "c19_utf8_width1_len127"),
}
for sid, (prop, needs, expect) in sorted(T.items()):
    d = os.path.join(V, "seeded", sid)
    runs = []
    p = os.path.join(d, "runs.jsonl")
    if os.path.exists(p):
        runs = [json.loads(l) for l in open(p) if l.strip()]
    unregistered = sid in ("C04-s1", "C12-s2", "C10-s2")  # found only by a harness that cannot pass on the correct tree and is therefore not registered
    caught = any(r["exit"] == 1 for r in runs) and not unregistered
    meta = {
        "id": sid, "breaks_property": prop, "needs_to_manifest": needs,
        "source": "written by an independent sub-agent that saw only the property text and a scratch worktree",
        "confirmed": "tools/confirm_seed.sh: demo passes on unpatched HEAD, patched tree compiles and the 36 tests + 6 doctests pass, demo fails patched" + (" (C18: run by hand with --features derive-spec)" if sid.startswith("C18") else ""),
        "expected_detection": expect,
        "check_runs": runs,
        "caught": caught,
        "found_only_by_unregistered_harness": unregistered,
        "agent_notes": open(os.path.join(d, "agent_notes.txt")).read(),
    }
    json.dump(meta, open(os.path.join(d, "meta.json"), "w"), indent=1)
    print(sid, "caught" if caught else ("-" if "NOT CAUGHT" in expect else "pending"), "|", expect[:80])
