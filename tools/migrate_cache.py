#!/usr/bin/env python3
"""One-off: copy cache entries keyed by the whole-crate source hash to the per-harness key (check.cache_key).
Must be run while the harness sources are exactly those the entries were produced from."""
import os, shutil, sys
sys.path.insert(0, os.path.join(os.path.dirname(__file__), ".."))
import check, harnesses as H
findings = check.load_findings()
ctx = {"cfgs": check.open_finding_cfgs(findings), "repo_hash": check.repo_hash(), "harness_hash": check.harness_hash()}
n = 0
for h in H.HARNESSES:
    for pb in (False, True):
        old = os.path.join(check.CACHE, check.cache_key(h, ctx, pb, None, legacy=True) + ".json")
        new = os.path.join(check.CACHE, check.cache_key(h, ctx, pb, None) + ".json")
        if os.path.exists(old) and not os.path.exists(new):
            shutil.copy(old, new); n += 1
print("migrated", n, "of", len(H.HARNESSES))
