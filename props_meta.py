"""Per-property claim texts for MANIFEST.json (source of truth; run tools/gen_manifest.py)."""
HOOK_COMMITS = []
NOTES = ("Every check is decided by Kani/CBMC over the real crate; exit 2 = inconclusive (timeout/OOM/cover unsat/non-reproducing "
         "counterexample) is never reported as pass or violation. Known findings: /verif/known_findings.json.")
BOUNDED = "bounded symbolic verification (SAT-decided for every value of the symbolic inputs within stated bounds; nothing claimed outside)"
CLAIMED = {
 "C15": dict(
  text="Every clause of the vint codec property is an assertion over fully symbolic 64-bit values / 9-byte slices of the real tools.rs "
       "functions, compared with a loop-free reference; CBMC decides each for ALL values (2^64 per encoder, 2^72 x 10 slice lengths per decoder). "
       "Bounded only in slice length (<= 9) and width (1..=8, the documented domain).",
  design_ref="DESIGN.md §6 C15", note="Trusted: Kani/CBMC, the reference oracles in harness/src/oracle.rs (self-tested on the repo's vectors). No stubs, no hooks.",
  technique="Kani/CBMC bounded symbolic execution of tools.rs leaf functions vs reference oracle, all 64-bit inputs"),
}
PENDING = "check not built yet in this round (see DESIGN.md §6 for the planned obligations)"
NOT_APPLICABLE = {
 "C08": "every clause runs through buffer_master/read_next/roll_up_children, measured out of reach of Kani/CBMC (DESIGN.md §6 C08, probes 33-34)",
 "C20": "needs next() through the async state machine and two 64 KiB buffers; measured infeasible for Kani (DESIGN.md §6 C20, probe 20); Kani does not model async schedules",
}
for p in ["C01","C02","C03","C04","C05","C06","C07","C09","C10","C11","C12","C13","C14","C16","C17","C18","C19"]:
    NOT_APPLICABLE[p] = PENDING
