"""Per-property claim texts for MANIFEST.json (source of truth; run tools/gen_manifest.py)."""
HOOK_COMMITS = ["f7d18a2", "ab8b224"]
NOTES = ("Every check is decided by Kani 0.68 / CBMC 6.11 (SAT) over the real crate, recompiled from /repo's working tree through a path dependency. "
         "check.py exit codes: 0 = all obligations hold within the stated bounds; 1 = VIOLATION (counterexample replayed natively against the real crate); "
         "2 = inconclusive (timeout / out of memory / unsatisfied cover witness / stub not applied / counterexample that does not reproduce) - never a pass. "
         "Harness results are cached under .work/cache keyed by SHA-256 of every source file of /repo and of the harness crate, so a cache hit is the same program. "
         "Genuine defects found and repaired are listed in known_findings.json (status fixed; they suppress nothing).")
T = "Kani/CBMC bounded symbolic execution of the real code; "
CLAIMED = {
 "C01": dict(
  text="Conjunction of unit obligations, no monolithic round trip (measured infeasible): (S) the exact size-field functions both sides call are inverse for ALL sizes in every width "
       "(reserved all-ones pattern never produced for a known size); (W) each element encoder emits id | size | payload as the reference format for all 64-bit values, every id length, "
       "payload lengths 0..3 and 126..128, explicit widths; end_tag lays out prefix | id | size | content; (R) is C03/C16. Composition by induction over the tag sequence is a written argument (DESIGN T5).",
  design_ref="DESIGN.md §6 C01", note="Unit-level; nesting mechanics of the reader (read_next) are NOT covered (DESIGN §11). Trusted: oracles, stubs fmt/ToolError Display/io drop, hook wrappers.",
  technique=T + "writer encoders and vint size codec vs reference byte format, all 64-bit values per unit"),
 "C02": dict(
  text="Claimed for (V) value re-encoding only: decoders are total functions of the payload (C16a) and the writer's encoders invert them for every 64-bit value, so dec(enc(dec(x))) == dec(x); 4-byte floats widen exactly; "
       "and (H) the writer and reader call the same validate_tag_path, decided against the declared-path pattern semantics (C11a). The End-emission part (E) lives in read_next and is not covered.",
  design_ref="DESIGN.md §6 C02", note="Partial: fixpoint over whole streams is a written composition of (V)+(H)+C01; streams with unknown-size closing are outside.",
  technique=T + "decoder/encoder inverse for all 64-bit values + hierarchy validator vs pattern oracle"),
 "C03": dict(
  text="(a) every accepted header equals the reference parse of the bytes at the cursor for a fully symbolic 24-byte buffer (id, type, size, header length), read position unchanged; "
       "(b) public next() on an enumerated family of master-free documents with all payload bytes symbolic: id at reported offset, value == reference decoding of exactly the payload bytes, offsets tile, then None; "
       "implied ancestors of a mid-document start are stored with offset 0; (c) the logical position current_offset() — the value every reported offset is taken from — is unchanged by a refill from any (cursor, fill) incl. cursor == fill (refill unit, symbolic cursor), and by peeking a header across a refill (thorough: hdr_refill_*). End/Full offsets (read_next/buffer_master) not covered.",
  design_ref="DESIGN.md §6 C03", note="Tiling for arbitrary streams = (a) + cursor advance observed in (b), by induction (T5). Specs Flat/Tree; payload <= 8 bytes; <= 3 items per document.",
  technique=T + "header unit on symbolic window + public next() on enumerated skeletons with symbolic payloads"),
 "C04": dict(
  text="(a) header result is a function of the bytes below the fill level only (stale bytes symbolic); (b) ensure_data_read keeps the buffered window equal to the stream at every absolute position for "
       "scripted short reads / temporary EOF / first fill / allocation smaller than the request incl. 0; (c) public next() over enumerated read partitions and capacities {0,1,5,16} of a 7-byte document with symbolic payloads equals the reference result; (d) header unit across a refill: 16 symbolic stream bytes, 0/1/4/8 of them buffered and the rest delivered 1/3/5 bytes per read (allocation 16/24): result == reference header of the 16 bytes, never an EOF/read error, position unchanged, buffered bytes == stream bytes.",
  design_ref="DESIGN.md §6 C04, §12b", note="Longer inputs by induction from (a)+(b) (T5). 3 scripted reads of <= 8 bytes; partitions enumerated, not symbolic.",
  technique=T + "refill unit over a scripted symbolic reader + header unit with symbolic stale bytes + enumerated chunkings"),
 "C05": dict(
  text="Every unit reached is panic-free for all symbolic inputs (Rust panics, overflow, bounds, unwinding assertions are CBMC checks): header parse on any 24-byte buffer/fill/mask/limit, refill under any read script, "
       "decoders on any slice <= 9, try_recover from a seeded state on any remainder (never backwards, Err only EOF/ReadError), source error surfaces as ReadError with the same OS error; accepted header >= 2 bytes within available bytes (item bound); fused None on enumerated documents.",
  design_ref="DESIGN.md §6 C05", note="read_next/buffer_master bodies are exercised only through the enumerated master-free documents; hang-freedom rests on the ranking argument (T5).",
  technique=T + "panic-freedom of each reader unit on fully symbolic inputs"),
 "C06": dict(
  text='Decision logic only. (i) validate_tag_path over spec Tree for every chain of open masters x every known/unknown-size pattern x every declared element: accepted iff the declared path matches the chain left after closing the trailing unknown-size masters the element ends (never while a known-size master is open inside); (ii) header unit with symbolic id/size/mask/limit at stack depth 0 (deeper seeded stacks with a fully symbolic header are intractable); (iii) containment on stacks up to depth 3 (every known/unknown pattern that matters, symbolic sizes): oversized iff it overruns ANY known-size ancestor; (iv) implied ancestors of a mid-document start are stored as End at offset 0; (v) with EOF closing off nothing is emitted at end of input. The emission mechanics (End order, closing loop, EOF closing) live in read_next: NOT covered.',
  design_ref="DESIGN.md §6 C06/C07", note='Partial claim (decision logic). Spec Tree (4 master levels), 1-byte ids. In (i) the finite id domain is enumerated as constants (no symbolic slot).',
  technique=T + "hierarchy/containment checks of the header unit vs pattern oracle on seeded stacks"),
 "C07": dict(
  text="Decision logic only: is_ended_by(m, e) for all 6 masters m of Tree (4 levels) and ALL 2^64 ids e == (sibling | instance of any ancestor | root), never global/undeclared; the validator judges an element against the chain after closing per the property's recursive rule (all known/unknown patterns of chains up to depth 3). The closing loop itself, close-by-size and known/unknown equivalence of whole documents are in read_next: NOT covered.",
  design_ref="DESIGN.md §6 C06/C07", note='Partial claim (decision logic).',
  technique=T + "is_ended_by truth table over all ids + header unit with unknown-size stacks"),
 "C09": dict(
  text="Per unit: ids emitted unchanged for every well-formed id; explicit width honoured exactly and only the size field changes (numeric all 64-bit values, binary/utf8 payload 0..3 symbolic bytes, widths 1,2,4,8 / dispatch of all 8 widths through the public API); "
       "end_tag layout for concrete shapes with symbolic bytes; deprecated unknown-size call == option-based call (equal post-state); short-writing destination receives exactly the buffer. Full == Start,children,End only by inspection + the rejected-Full harness.",
  design_ref="DESIGN.md §6 C09", note="The public writer on whole documents is intractable; clause (e) Full-equivalence is not decided.",
  technique=T + "writer units via hooks vs reference byte layout"),
 "C10": dict(
  text='Public write / write_raw of an element with 0..2 masters open in every known/unknown combination (symbolic payload and buffered bytes): destination only extended; no known-size master open => buffer empty and element handed over; a known-size master open at ANY depth => destination untouched, buffer extended; private_flush delivers exactly the buffer under short writes (symbolic and concrete lengths); end_tag layout (C09a); from the states the writer reaches after an unknown-size Start (header(s) of 9/18 arbitrary bytes still pending, only unknown-size masters open): public write(End) of the innermost unknown-size master and public write of an element hand over every pending byte in order and leave the buffer empty; an unknown-size Start keeps destination ++ buffer == previous content | header.',
  design_ref="DESIGN.md §6 C10, §12b", note='Per-call contract with Inv_w (extension round: weakened to the reachable form "no known-size master open => the buffer holds at most the headers of unknown-size masters started since the last hand-over") asserted as post-condition; sequences by induction (T5). flush()/into_inner() as a whole are intractable (out of memory) and NOT covered.',
  technique=T + "flush contract of one public write from seeded writer states"),
 "C11": dict(
  text='(a) validate_tag_path == declared-path pattern semantics for ONE fully symbolic path of 0..3 parts (Id or Global(min,max) with any bounds, in any position) against every chain of 0..3 known-size masters; (b) the same function over Tree with unknown-size masters in every pattern (ids enumerated); (c) reader call site at depth 0 with symbolic header: HierarchyError carrying the offending id iff the remaining chain does not match; (d) writer call site: misplaced known-size start / leaf and misplaced unknown-size start (both calls) rejected with UnexpectedTag and no trace, global within range accepted; is_ended_by table.',
  design_ref="DESIGN.md §6 C11", note='Multi-id symbolic spec tables outside. Reader call site with open masters is covered through the validator unit (b) plus the depth-0 header unit, not end to end.',
  technique=T + "validator vs DP pattern-matching oracle, symbolic path and chain"),
 "C12": dict(
  text="(a) a header cut anywhere (fill 0..15, stale bytes symbolic) yields the EOF error with start == cursor, id present iff complete, no size - never corruption; (b) a two-element document cut at positions 0,2,3,4,5,7,8 of 9 (positions 1 and 6 end in tool failures and are not registered), payload symbolic: "
       "exactly the contained tags, None on a boundary, else EOF with accurate start/id/size/partial data; (c) the converse for headers: when all 16 bytes of a header window exist in the stream (some buffered, the rest arriving in 1/3/5-byte reads) no EOF error is reported, whatever the split.",
  design_ref="DESIGN.md §6 C12, §12b", note="Ends of open masters at boundary cuts need read_next with masters: NOT covered. Flat spec, capacity 32/16.",
  technique=T + "truncated header unit + public next() on every cut of an enumerated document"),
 "C13": dict(
  text="Header unit with symbolic tolerance mask (all 8) and limit: a complete header is rejected only for a fault it has, with that fault's own kind, id and offset, never for a tolerated class; accepted implies no untolerated fault (unknown id, misplaced, overrun, above limit); the limit stays in force under every tolerance setting; containment decided on stacks up to depth 3. Prefix-monotonicity = one-step version by induction.",
  design_ref="DESIGN.md §6 C13", note="Flat (all header shapes) + Tree (hierarchy/oversize with seeded stacks).",
  technique=T + "header unit: fault-set oracle under every tolerance mask"),
 "C14": dict(
  text="try_recover from a seeded state: 1 junk byte (any non-id value) before a valid child that fits Root at its original size => Ok, cursor +1 exactly, known size +1, next header is the planted one; "
       "nothing left: position unchanged, EOF error, no panic; arbitrary 3-byte remainder (never backwards, never past the end, Err only EOF/ReadError): in C05's quick tier and C14's thorough tier; a zero byte is never swallowed as id padding (header unit). Two or more junk bytes: NOT covered (did not finish).",
  design_ref="DESIGN.md §6 C14", note="End-to-end 'all remaining tags as in the undamaged document' = post-state equality + C03/C06 steps (T5). Spec Mini.",
  technique=T + "try_recover unit from seeded iterator state"),
 "C15": dict(
  text="Every clause of the vint codec property is an assertion over fully symbolic 64-bit values / 9-byte slices of the real tools.rs functions, compared with a loop-free reference; CBMC decides each for ALL values "
       "(2^64 per encoder, 2^72 x 10 slice lengths per decoder). Bounded only in slice length (<= 9) and width (1..=8, the documented domain).",
  design_ref="DESIGN.md §6 C15", note="Trusted: Kani/CBMC, the reference oracles in harness/src/oracle.rs (self-tested on the repo's vectors). No stubs, no hooks.",
  technique=T + "tools.rs leaf functions vs reference oracle, all 64-bit inputs"),
 "C16": dict(
  text="Decoders on every slice of length 0..9 (all byte values) vs big-endian / sign-extended / IEEE reference, total; the writer's numeric encoders for ALL u64/i64/f64 values: minimal 1/2/4/8 width, big-endian bytes, and the decoder returns the identical value (floats bit for bit).",
  design_ref="DESIGN.md §6 C16", note="Writer encoders reached through cfg-guarded forwarding hooks; stubs for fmt::format/ToolError Display (error text unobserved).",
  technique=T + "payload decoders and numeric encoders, all 64-bit values"),
 "C17": dict(
  text='(a) header unit: a known size above the (symbolic) limit is never accepted under any tolerance mask, for every size-field width up to 8 bytes, no arithmetic overflow; (b) refill unit: after ensure_data_read(len) the allocation is at most max(previous allocation, len) (symbolic and concrete cursor positions).',
  design_ref="DESIGN.md §6 C17", note="'rejected before any allocation' = the header check precedes read_tag_data (call order by inspection); real allocator behaviour outside.",
  technique=T + "size-limit check of the header unit + allocation bound of the refill unit"),
 "C18": dict(
  text="Accepted-declaration half, translation validation over an enumerated corpus of 4 declarations x both front-ends expanded by the REAL macros at build time: for ALL 2^64 probe ids and symbolic payloads the generated "
       "tables/constructors/accessors mean what was declared, Void/Crc32/RawTag present, front-ends agree.",
  design_ref="DESIGN.md §6 C18", note="'Every declaration' and the compile-error half are outside (only rustc observes them).",
  technique=T + "derive-macro output vs declared table, all 2^64 ids"),
 "C19": dict(
  text="One harness per failing kind: snapshot (buffer, open masters, destination) -> failing call -> Err and state == snapshot: size not representable (binary/utf8 width 1, 126..129 bytes), unknown size on non-master, "
       "malformed raw id (all ids), End of a non-innermost / non-open master (all ids), misplaced tag (known-size start, leaf, unknown-size start through both calls). Full master with an invalid child: NOT covered (recursive public write intractable).",
  design_ref="DESIGN.md §6 C19", note="State equality => all later behaviour equal.",
  technique=T + "state-snapshot equality around each rejected writer call"),
}
NOT_APPLICABLE = {
 "C08": "every clause runs through buffer_master/read_next/roll_up_children, measured out of reach of Kani/CBMC (DESIGN.md §6 C08, probes 33-34); no smaller unit carries the property",
 "C20": "needs next() through the async state machine and two 64 KiB buffers; measured infeasible for Kani (DESIGN.md §6 C20, probe 20); Kani does not model async schedules",
}
